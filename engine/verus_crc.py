"""Engine E-V: Verus on the verbatim text of crc::modes_checksum + CRC_TABLE (C03).

The executable text is copied from /repo/libadsb_deku/src/crc.rs on every run; only ghost text
(requires/ensures/invariant/proof blocks/let ghost) from contracts/verus/crc_ghost.rs is inserted
and two token rewrites are made (`-> result::Result<u32, DekuError>` becomes
`-> (res: Result<u32, DekuError>)`; nothing else).  Dropped by the extraction: the `use` lines and
the deku `DekuError` / `NeedSize` types (replaced by a shim with the same constructor names)."""
import itertools
import json
import os
import re
import shutil
import tempfile
import time

import common
from common import REPO, VERIF, Undecided, log, sh

GHOST = os.path.join(VERIF, "contracts", "verus", "crc_ghost.rs")
MARK = "  //@verif"


def sections():
    txt = open(GHOST).read()
    parts = re.split(r"^// ===(\w+)===\n", txt, flags=re.M)
    out = {}
    for k in range(1, len(parts), 2):
        out[parts[k]] = parts[k + 1]
    return out


def ghost(text):
    return "".join((l + MARK + "\n") if l.strip() else "\n" for l in text.rstrip("\n").split("\n"))


def extract():
    src = open(os.path.join(REPO, "libadsb_deku", "src", "crc.rs")).read()
    m = re.search(r"^pub const CRC_TABLE: \[u32; 256\] = \[\n.*?^\];\n", src, re.S | re.M)
    if not m:
        raise Undecided("lost anchor: CRC_TABLE in crc.rs")
    table = m.group(0)
    m = re.search(r"^pub fn modes_checksum\(.*?^}\n", src, re.S | re.M)
    if not m:
        raise Undecided("lost anchor: fn modes_checksum in crc.rs")
    return table, m.group(0)


def generate():
    sec = sections()
    table, fn = extract()
    lines = fn.split("\n")
    out = []
    state = {"sig": False, "loop": False, "step": False, "mask": False}
    i = 0
    while i < len(lines):
        l = lines[i]
        if not state["sig"] and l.startswith("pub fn modes_checksum(") and l.rstrip().endswith("{"):
            sig = l.rstrip()[:-1].rstrip()
            m = re.match(r"(pub fn modes_checksum\(.*\)) -> (?:result::)?Result<u32, DekuError>$", sig)
            if not m:
                raise Undecided("unsupported signature of modes_checksum: %s" % sig)
            out.append(m.group(1) + " -> (res: Result<u32, DekuError>)  //@verif-rewritten-signature")
            out.append(ghost(sec["ENSURES"]).rstrip("\n"))
            out.append("{")
            state["sig"] = True
        elif not state["loop"] and re.match(r"\s*for i in 0\.\..* \{\s*$", l):
            out.append(l.rstrip()[:-1].rstrip() + "  //@verif-split-loop-head")
            out.append(ghost(sec["INVARIANT"]).rstrip("\n"))
            out.append("    {  //@verif-split-loop-head")
            out.append(ghost(sec["LOOP_HEAD"]).rstrip("\n"))
            state["loop"] = True
        elif state["loop"] and not state["step"] and re.match(r"\s*rem =\s*$", l):
            # two-line statement `rem =\n (rem << 8) ^ CRC_TABLE[...];`
            out.append(l)
            i += 1
            out.append(lines[i])
            if not lines[i].rstrip().endswith(";"):
                raise Undecided("unsupported shape of the table step statement")
            out.append(ghost(sec["AFTER_TABLE_STEP"]).rstrip("\n"))
            state["step"] = True
        elif state["loop"] and not state["step"] and re.match(r"\s*rem = .*CRC_TABLE.*;\s*$", l):
            out.append(l)
            out.append(ghost(sec["AFTER_TABLE_STEP"]).rstrip("\n"))
            state["step"] = True
        elif state["step"] and not state["mask"] and re.match(r"\s*rem &= [^;]*;\s*$", l):
            out.append(l)
            out.append(ghost(sec["AFTER_MASK"]).rstrip("\n"))
            state["mask"] = True
        else:
            out.append(l)
        i += 1
    missing = [k for k, v in state.items() if not v]
    if missing:
        raise Undecided("lost anchor(s) in modes_checksum: %s (the function was restructured; the ghost text has nowhere to go)" % missing)
    body = "\n".join(out)
    text = ("use vstd::prelude::*;\nverus! {\n" + table + "\n" + ghost(sec["SPEC"]) + "\n" + body + "\n" +
            ghost(sec["LEMMAS"]) + "\n} // verus!\nfn main() {}\n")
    # self-check: remove ghost lines, undo the rewrites -> the original text of the two items
    kept = []
    for l in body.split("\n"):
        if l.endswith(MARK) or l.strip() == "":
            if l.strip() == "":
                kept.append(l)
            continue
        kept.append(l)
    rec = "\n".join(kept)
    rec = re.sub(r"(pub fn modes_checksum\(.*\)) -> \(res: Result<u32, DekuError>\)  //@verif-rewritten-signature\n\{",
                 r"\1 -> result::Result<u32, DekuError> {", rec)
    rec = re.sub(r"(for i in 0\.\.[^\n]*?)  //@verif-split-loop-head\n    \{  //@verif-split-loop-head", r"\1 {", rec)
    norm = lambda s: re.sub(r"\n\s*\n", "\n", s.strip())  # noqa: E731
    if norm(rec) != norm(fn):
        raise Undecided("Verus extraction self-check failed (stripped text differs from /repo)")
    return text, table, fn


def run_verus(text, extra=()):
    d = tempfile.mkdtemp(prefix="adsbverus-")
    try:
        p = os.path.join(d, "crc_v.rs")
        with open(p, "w") as f:
            f.write(text)
        rc, out, dt = sh(["verus", p, "--output-json", "--time"] + list(extra), cwd=d, timeout=900)
        return rc, out, dt
    finally:
        shutil.rmtree(d, ignore_errors=True)


def parse_verus(out):
    # the JSON object is printed on stdout; diagnostics around it
    i = out.find("{")
    js = None
    while i >= 0:
        try:
            js = json.loads(out[i:out.rindex("}") + 1])
            break
        except Exception:
            i = out.find("{", i + 1)
    return js


# ----------------------------------------------------------------------------------------------
# computed, exhaustive part: no error pattern of weight <= 5 has zero syndrome (n = 56, 112)
# evaluated on the *spec* (bit-serial division by 0x1FFF409); by linearity (lemma_pdiv_linear,
# proved) the syndrome of a corrupted valid frame is the XOR of the single-bit syndromes.
# ----------------------------------------------------------------------------------------------
G = 0x1FFF409


def single_bit_syndromes(nbits):
    s = []
    for i in range(nbits):
        e = nbits - 1 - i
        r = 1
        for _ in range(e):
            r <<= 1
            if r & (1 << 24):
                r ^= G
        s.append(r)
    return s


def weight5(nbits):
    s = single_bit_syndromes(nbits)
    n = nbits
    if len(set(s)) != n or 0 in s:
        return {"n": n, "min_weight_found": 1 if 0 in s else 2}
    pairs = {}
    for i, j in itertools.combinations(range(n), 2):
        pairs.setdefault(s[i] ^ s[j], []).append((i, j))
    sset = {v: i for i, v in enumerate(s)}
    lookups = 0
    for x, p in pairs.items():
        lookups += 1
        if x in sset and all(sset[x] not in q for q in p):
            return {"n": n, "min_weight_found": 3}
        if len(p) > 1:
            for a in p:
                for b in p:
                    if a != b and set(a).isdisjoint(b):
                        return {"n": n, "min_weight_found": 4}
    for i, j, k in itertools.combinations(range(n), 3):
        x = s[i] ^ s[j] ^ s[k]
        lookups += 1
        if x in pairs:
            for p in pairs[x]:
                if set(p).isdisjoint((i, j, k)):
                    return {"n": n, "min_weight_found": 5}
    return {"n": n, "min_weight_found": None, "lookups": lookups}


def check(tier, seed, obls):
    t0 = time.time()
    pid = "C03"
    try:
        text, table, fn = generate()
    except Undecided as e:
        cex = native_search(seed)
        if cex:
            payload = {"property": pid, "obligation_harness": "crc_native", "input_hex": cex,
                       "failed_obligations": [{"clause": "[C03] modes_checksum == remainder modulo 0x1FFF409 xor last 24 bits"}],
                       "note": "the Verus anchors were lost (%s); the violation was found by evaluating the real function against the bit-serial spec" % str(e).split("\n")[0]}
            path = common.write_replay(pid, "crc_native", payload)
            common.write_evidence(pid, {"property_id": pid, "tier": tier, "seed": seed, "level": "proof",
                                        "coverage": {"obligations": 1, "discharged": 0, "checker_cmd": "native evaluation of crc::modes_checksum against the spec (Verus anchors lost)", "trusted_base": []},
                                        "wall_s": round(time.time() - t0, 2), "violations": 1})
            print("VIOLATION property=%s replay=%s" % (pid, path))
            return 1
        raise
    rc, out, dt = run_verus(text)
    js = parse_verus(out)
    undecided = []
    if js is None:
        raise Undecided("verus produced no JSON: %s" % out[-1500:])
    vr = js.get("verification-results", {})
    verified = vr.get("verified", 0)
    errors = vr.get("errors", 0)
    times = js.get("times-ms", {})
    fn_details = []
    failed_fns = []
    # per-function breakdown when available
    for m in re.finditer(r"error: (.*)\n\s*--> [^\n]*:(\d+):", out):
        failed_fns.append({"msg": m.group(1), "line": int(m.group(2))})
    lines = []
    exit_code = 0
    n_viol = 0
    # Frame-level window obligations (Kani): crc computed over exactly the first 7/14 bytes
    import drive
    kani_part = None
    w5 = [weight5(56), weight5(112)]
    bad_w5 = [w for w in w5 if w["min_weight_found"] is not None]
    if errors or not vr.get("success", False):
        # an obligation that is discharged on the unchanged tree now fails: report it; Verus gives no
        # counterexample, so try to find a failing input by evaluating code vs spec natively
        cex = native_search(seed)
        payload = {"property": pid, "obligation_harness": "verus:crc_v.rs", "failed_obligations": failed_fns[:10],
                   "verifier_output_tail": out[-6000:], "input_hex": cex or "",
                   "note": "Verus reports the failed obligation but gives no counterexample; input_hex (if any) was found by evaluating crc::modes_checksum against the bit-serial spec natively"}
        path = common.write_replay(pid, "verus_crc", payload)
        lines.append("VIOLATION property=%s replay=%s%s" % (pid, path, "" if cex else " no-failing-input-found"))
        exit_code = 1
        n_viol += 1
    if bad_w5:
        payload = {"property": pid, "obligation_harness": "computed:weight5", "detail": bad_w5}
        path = common.write_replay(pid, "weight5", payload)
        lines.append("VIOLATION property=%s replay=%s" % (pid, path))
        exit_code = 1
        n_viol += 1
    ev = {
        "property_id": pid, "tier": tier, "seed": seed, "level": "proof",
        "coverage": {
            "obligations": verified + errors, "discharged": verified,
            "checker_cmd": "verus crc_v.rs --output-json --time (Verus 0.2026.09.13, z3) on the verbatim text of CRC_TABLE and modes_checksum extracted from /repo on this run",
            "trusted_base": ["Verus 0.2026.09.13 / z3 / rustc front end", "vstd",
                             "DekuError/NeedSize replaced by a two-constructor shim (the function only constructs Incomplete(NeedSize::new(4)))"],
            "functions_under_contract": ["crc::modes_checksum (unbounded message length)", "crc::CRC_TABLE (256 entries == 8 division steps, by(compute))"],
            "lemmas": ["lemma_step: table step == 8 bit-serial division steps", "lemma_pdiv_linear: GF(2) linearity of the remainder",
                       "lemma_burst_nonzero: every non-zero pattern of degree < 24 at every offset has non-zero remainder (bursts <= 24)"],
            "computed_exhaustive": {"what": "no XOR of <= 5 distinct single-bit syndromes of the spec is zero (n = 56, 112); a finite computation over the spec, not an SMT deduction", "result": w5},
            "verus_times_ms": {k: times.get(k) for k in ("total", "smt", "verus-build") if k in times} if isinstance(times, dict) else {},
            "samples": [{"obligation": "modes_checksum ensures res == syndrome(message@, bits/8)"},
                        {"obligation": "loop invariant rem == pdiv(message@, i)"}],
            "extraction_drops": ["use lines of crc.rs", "deku::DekuError / NeedSize (shim with the same names)"],
            "exhaustive": True,
        },
        "assumptions": ["Verus u32 arithmetic is checked for overflow; spec integers only index sequences",
                        "the window handed to modes_checksum by Frame::read_crc is decided by the Kani frame obligations tagged [C03] (run by ./check C02 / C04); this check covers the function and the algebra"],
        "wall_s": round(time.time() - t0, 2), "violations": n_viol,
    }
    common.write_evidence(pid, ev)
    for l in lines:
        print(l)
    if exit_code == 0:
        print("OK property=C03 tier=%s verus_verified=%d errors=%d weight5=%s wall=%.0fs" % (tier, verified, errors, [w["min_weight_found"] for w in w5], time.time() - t0))
    return exit_code


def native_search(seed):
    """Find an input on which the real crc::modes_checksum differs from the bit-serial spec."""
    try:
        import build
        import registry
        import drive
        o = [x for x in registry.OBL if x["name"] == "crc_native"]
        if not o:
            return None
        import random
        rnd = random.Random(seed)
        sc = build.make_scratch(o, "native")
        try:
            exe = build.build_native(sc)
            cands = []
            for n in (7, 14, 3, 4, 20):
                for extra in (0, 1, 4):
                    for _ in range(25):
                        cands.append(bytes([n, extra]) + bytes(rnd.getrandbits(8) for _ in range(n + extra)))
                for i in range(n):
                    b = bytearray(n)
                    b[i] = 1 << rnd.randrange(8)
                    cands.append(bytes([n, 0]) + bytes(b))
            for c in cands:
                rc, txt, dt = sh([exe, "crc_native", c.hex()], timeout=60)
                if "FAILED-OBLIGATION" in txt or "PANIC" in txt:
                    return c.hex()
        finally:
            sc.cleanup()
    except Exception as e:  # noqa
        log("native search failed: %s" % e)
    return None
