"""Builds the spliced scratch copies: /repo's working-tree sources + spec + obligations + generated
harness (Kani) or replay dispatcher (native)."""
import glob
import os

from common import (HARNESS_DIR, SPEC_DIR, Scratch, Undecided, VERIF, sh, TRACING_SHIM)

LIB_MODS = ["verif_spec", "verif_support", "verif_obl_leaf", "verif_obl_frame", "verif_obl_cpr",
            "verif_obl_vel", "verif_obl_reader"]
COMMON_MODS = ["verif_support", "verif_obl_tracker"]

STUB_DEFS = {
    "fmt": ("alloc::fmt::format", "crate::verif_harness::stub_format"),
}

HARNESS_PRELUDE = """#![allow(dead_code, unused_imports, clippy::all)]
extern crate alloc;
use crate::verif_support::*;
pub fn stub_format(_a: core::fmt::Arguments<'_>) -> alloc::string::String {
    alloc::string::String::new()
}
"""

REPLAY_PRELUDE = """#![allow(dead_code, unused_imports, clippy::all)]
extern crate alloc;
extern crate std;
use crate::verif_support::*;
use std::string::String;
use std::vec::Vec;
pub fn known(name: &str) -> bool {
    matches!(name, %(names)s)
}
pub fn run(name: &str, bytes: Vec<u8>) -> (Vec<&'static str>, Vec<String>, usize, bool) {
    let mut s = Src::from_bytes(bytes);
    let mut c = Ctx::new();
    match name {
%(arms)s
        _ => panic!("unknown obligation"),
    }
    (c.fails, c.notes, c.checks, c.assumed_out)
}
"""

REPLAY_MAIN = """use std::io::BufRead;
use std::panic;
fn unhex(hex: &str) -> Vec<u8> {
    (0..hex.len() / 2).map(|i| u8::from_str_radix(&hex[2 * i..2 * i + 2], 16).unwrap()).collect()
}
fn one(name: &str, bytes: Vec<u8>) -> Result<(Vec<&'static str>, Vec<String>, usize, bool), String> {
    let n2 = name.to_string();
    let r = panic::catch_unwind(move || {
        if adsb_deku::verif_replay::known(&n2) {
            adsb_deku::verif_replay::run(&n2, bytes)
        } else {
            %(common_call)s
        }
    });
    r.map_err(|e| if let Some(s) = e.downcast_ref::<String>() { s.clone() } else if let Some(s) = e.downcast_ref::<&str>() { s.to_string() } else { "?".to_string() })
}
fn main() {
    let a: Vec<String> = std::env::args().collect();
    let name = a[1].clone();
    let hex = if a.len() > 2 { a[2].clone() } else { String::new() };
    if hex == "-" {
        // batch mode: one hex input per stdin line, one summary line each
        panic::set_hook(Box::new(|_| {}));
        let stdin = std::io::stdin();
        for line in stdin.lock().lines() {
            let line = line.unwrap();
            let h = line.trim();
            match one(&name, unhex(h)) {
                Ok((fails, _notes, checks, out)) => println!("LINE {} checks={} outside={} failed={} {}", h, checks, out, fails.len(), fails.join(" ;; ")),
                Err(m) => println!("LINE {} PANIC {}", h, m),
            }
        }
        return;
    }
    match one(&name, unhex(&hex)) {
        Ok((fails, notes, checks, assumed_out)) => {
            println!("REPLAY name={} checks={} outside_precondition={} failed={}", name, checks, assumed_out, fails.len());
            for f in fails { println!("FAILED-OBLIGATION: {}", f); }
            for n in notes { println!("NOTE: {}", n); }
        }
        Err(msg) => {
            println!("REPLAY name={} PANIC: {}", name, msg);
        }
    }
}
"""


def mods_present(mods):
    out = []
    for m in mods:
        for d in (SPEC_DIR, HARNESS_DIR):
            p = os.path.join(d, m + ".rs")
            if os.path.exists(p):
                out.append((m, p))
    return out


def nl_table_rs():
    """58 transition latitudes of NL(lat), generated from the closed form of 1090-WP-9-14 and
    rounded to the 8 decimals the standard tabulates (index 0 <-> NL 59 ... index 57 <-> NL 2)."""
    import math
    vals = []
    for nl in range(59, 1, -1):
        v = 180.0 / math.pi * math.acos(math.sqrt((1 - math.cos(math.pi / 30)) / (1 - math.cos(2 * math.pi / nl))))
        vals.append("%.8f" % v)
    return "//! generated at check time\npub const NL_T: [f64; 58] = [%s];\n" % ", ".join(vals)


def splice_crate(sc, crate_dir, mods, obls, kind, crate_name):
    lines = []
    if crate_name == "adsb_deku":
        sc.add_file(os.path.join(crate_dir, "src", "verif_nl_table.rs"), nl_table_rs())
        lines.append("#[cfg(any(kani, verif_native))] pub mod verif_nl_table;")
    for m, p in mods_present(mods):
        # rsadsb_common gets its own copy of the support file
        with open(p) as f:
            sc.add_file(os.path.join(crate_dir, "src", m + ".rs"), f.read())
        lines.append("#[cfg(any(kani, verif_native))] pub mod %s;" % m)
    mine = [o for o in obls if o["crate"] == crate_name]
    if kind == "kani":
        body = HARNESS_PRELUDE
        for o in mine:
            attrs = ["#[kani::proof]"]
            if o["unwind"]:
                attrs.append("#[kani::unwind(%d)]" % o["unwind"])
            for st in o["stubs"]:
                if st in STUB_DEFS:
                    a, b = STUB_DEFS[st]
                else:
                    a, b = st.split("=>")
                attrs.append("#[kani::stub(%s, %s)]" % (a.strip(), b.strip()))
            args = (", " + o["args"]) if o["args"] else ""
            body += "%s\nfn %s() {\n    let mut s = Src::new();\n    let mut c = Ctx::new();\n    %s(&mut s, &mut c%s);\n}\n" % (
                "\n".join(attrs), o["name"], o["fn"], args)
        sc.add_file(os.path.join(crate_dir, "src", "verif_harness.rs"), body)
        lines.append("#[cfg(kani)] mod verif_harness;")
    else:
        arms = ""
        for o in mine:
            args = (", " + o["args"]) if o["args"] else ""
            arms += "        \"%s\" => %s(&mut s, &mut c%s),\n" % (o["name"], o["fn"], args)
        names = " | ".join('"%s"' % o["name"] for o in mine) or '"__none__"'
        sc.add_file(os.path.join(crate_dir, "src", "verif_replay.rs"),
                    REPLAY_PRELUDE % {"arms": arms, "names": names})
        lines.append("#[cfg(verif_native)] pub mod verif_replay;")
    sc.append(os.path.join(crate_dir, "src", "lib.rs"), "\n".join(lines))


def slice_ident_reader(sc):
    """C08: mechanical cut of `aircraft_identification_read` at the statement that builds the
    String, so that the character loop (all 2^48 inputs, Vec of capacity 8) and the table mapping
    (every concrete length 0..=8, symbolic codes) are verified separately: CBMC cannot read the
    contents of a String of symbolic length.  Generated on every run from /repo's text; self-check:
    loop part + tail statement + `Ok(encoded)` is exactly the original body.  Dropped: nothing;
    added: the two new signatures, `Ok(chars)` and the tail's return expression."""
    import re
    rel = os.path.join("libadsb_deku", "src", "lib.rs")
    src = sc.originals.get(rel) or sc.read(rel)
    m = re.search(r"pub\(crate\) fn aircraft_identification_read<R: Read \+ Seek>\(\n\s*reader: &mut Reader<R>,\n\) -> Result<String, DekuError> \{\n(.*?)\n\}\n", src, re.S)
    if not m:
        raise Undecided("lost anchor: aircraft_identification_read signature")
    body = m.group(1)
    k = body.find("    let encoded =")
    if k < 0:
        raise Undecided("lost anchor: `let encoded =` statement in aircraft_identification_read")
    part1 = body[:k]
    rest = body[k:]
    e = rest.find(";\n")
    tail_stmt = rest[:e + 1]
    after = rest[e + 1:]
    if after.strip() != "Ok(encoded)":
        raise Undecided("unsupported shape of aircraft_identification_read after the String statement: %r" % after.strip()[:80])
    if "chars" not in tail_stmt or "reader" in tail_stmt:
        raise Undecided("the String statement of aircraft_identification_read does not depend on `chars` only")
    if (part1 + tail_stmt + after) != body:
        raise Undecided("slice self-check failed")
    text = ("\n#[cfg(kani)]\npub(crate) fn verif_ident_loop<R: Read + Seek>(\n    reader: &mut Reader<R>,\n) -> Result<Vec<u8>, DekuError> {\n"
            + part1 + "    Ok(chars)\n}\n#[cfg(kani)]\npub(crate) fn verif_ident_tail(chars: Vec<u8>) -> String {\n" + tail_stmt + "\n    encoded\n}\n")
    sc.append(rel, text)


def inplace_appends(sc, kind):
    """Harness text that must live inside a private module (cpr.rs, ...) is appended to that
    file: contracts/harness/inplace_<crate>_<file>.rs"""
    for p in sorted(glob.glob(os.path.join(HARNESS_DIR, "inplace_*.rs"))):
        base = os.path.basename(p)[len("inplace_"):-3]
        crate, fname = base.split("__")
        rel = os.path.join(crate, "src", fname + ".rs")
        if not os.path.exists(sc.path(rel)):
            if crate == "rsadsb_common" and not sc.with_common:
                continue
            raise Undecided("lost anchor file %s" % rel)
        with open(p) as f:
            sc.append(rel, f.read())


def overlay_attrs(sc):
    """Kani contract attributes inserted above the real functions (contracts/overlay.txt):
    lines `<relpath> | <fn regex> | <attribute line>`"""
    p = os.path.join(VERIF, "contracts", "overlay.txt")
    if not os.path.exists(p):
        return []
    done = []
    for l in open(p):
        l = l.rstrip("\n")
        if not l.strip() or l.startswith("#"):
            continue
        rel, rx, attr = [x.strip() for x in l.split("|", 2)]
        if not os.path.exists(sc.path(rel)):
            continue
        sc.insert_before_fn(rel, rx, [attr])
        done.append((rel, rx, attr))
    return done


def make_scratch(obls, kind="kani", with_common=None):
    if with_common is None:
        with_common = any(o["crate"] == "rsadsb_common" for o in obls)
    sc = Scratch(kind=kind, with_common=with_common)
    try:
        splice_crate(sc, "libadsb_deku", LIB_MODS, obls, kind, "adsb_deku")
        if with_common:
            splice_crate(sc, "rsadsb_common", COMMON_MODS, obls, kind, "rsadsb_common")
        inplace_appends(sc, kind)
        if kind == "kani":
            slice_ident_reader(sc)
        overlay_attrs(sc)
        if kind == "native":
            os.makedirs(sc.path("verif_replay_bin/src"))
            dep_common = 'rsadsb_common = { path = "../rsadsb_common" }\n' if with_common else ""
            sc.add_file("verif_replay_bin/Cargo.toml",
                        "[package]\nname = \"verif_replay\"\nversion = \"0.0.0\"\nedition = \"2021\"\n\n[dependencies]\n"
                        "adsb_deku = { path = \"../libadsb_deku\" }\n" + dep_common +
                        "\n[lints.rust]\nunexpected_cfgs = { level = \"allow\" }\n")
            call = "rsadsb_common::verif_replay::run(&n2, bytes)" if with_common else "panic!(\"unknown obligation\")"
            sc.add_file("verif_replay_bin/src/main.rs", REPLAY_MAIN % {"common_call": call})
            ws = sc.read("Cargo.toml").replace('members = [', 'members = ["verif_replay_bin", ')
            sc.add_file("Cargo.toml", ws)
        sc.self_check()
    except Exception:
        sc.cleanup()
        raise
    return sc


def build_native(sc):
    rc, out, dt = sh(["cargo", "build", "--offline", "-p", "verif_replay", "--release"], cwd=sc.dir,
                     env={"CARGO_TARGET_DIR": sc.target, "RUSTFLAGS": "--cfg verif_native"},
                     timeout=1200)
    if rc != 0:
        raise Undecided("native replay build failed:\n" + out[-6000:])
    return os.path.join(sc.target, "release", "verif_replay")
