"""Developer tool: run a set of harnesses (name prefix, tier) and print a timing/status table."""
import json, sys, os
sys.path.insert(0, os.path.dirname(os.path.abspath(__file__)))
import registry, drive
pref, tier = sys.argv[1], sys.argv[2]
feat = sys.argv[3] if len(sys.argv) > 3 else None
tmo = int(sys.argv[4]) if len(sys.argv) > 4 else None
obls = [o for o in registry.OBL if o["name"].startswith(pref) and (tier == "all" or o["tier"] == tier)]
groups = {}
for o in obls:
    f = feat or o["features"][0]
    if feat and feat not in o["features"]:
        continue
    if tmo:
        o = dict(o); o["timeout"] = tmo
    groups.setdefault((o["crate"], f, tuple(o["kani_flags"])), []).append(o)
for (crate, f, fl), gl in groups.items():
    res, dt, out = drive.run_group("X", tier, crate, f, gl, 14)
    print("group", crate, f, "wall", round(dt))
    for k, v in sorted(res.items()):
        print(k, f, v["status"], v["time_s"], [c["desc"][:100] for c in v["checks"] if c["status"] == "FAILURE"][:4], flush=True)
