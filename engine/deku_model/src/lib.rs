//! PROTOTYPE: lightweight stand-in for the deku 0.18.1 *runtime* (no bitvec), same public paths as
//! the ones the real `deku_derive` expansion and adsb_deku's hand-written readers use.
//! The derive macros are the REAL deku_derive 0.18.1.
#![cfg_attr(not(feature = "std"), no_std)]
extern crate alloc;

pub mod no_std_io {
    pub use no_std_io::io::Cursor;
    pub use no_std_io::io::{Error, ErrorKind};
    pub use no_std_io::io::Read;
    pub use no_std_io::io::Result;
    pub use no_std_io::io::Seek;
    pub use no_std_io::io::SeekFrom;
    pub use no_std_io::io::Write;
}

pub use deku_derive::*;

pub mod ctx {
    use core::marker::PhantomData;
    #[derive(Debug, Copy, Clone, Eq, PartialEq)]
    pub enum Endian {
        Little,
        Big,
    }
    impl Endian {
        #[inline]
        pub const fn new() -> Self {
            Endian::Little
        }
        #[inline]
        pub fn is_le(self) -> bool {
            self == Endian::Little
        }
        #[inline]
        pub fn is_be(self) -> bool {
            self == Endian::Big
        }
    }
    impl Default for Endian {
        fn default() -> Self {
            Self::new()
        }
    }
    #[derive(Debug, Copy, Clone, PartialEq, Eq, Ord, PartialOrd)]
    pub enum Limit<T, Predicate: FnMut(&T) -> bool> {
        Count(usize),
        Until(Predicate, PhantomData<T>),
        ByteSize(ByteSize),
        BitSize(BitSize),
        End,
    }
    impl<T> From<usize> for Limit<T, fn(&T) -> bool> {
        fn from(n: usize) -> Self {
            Limit::Count(n)
        }
    }
    impl<T> Limit<T, fn(&T) -> bool> {
        pub fn new_count(count: usize) -> Self {
            count.into()
        }
    }
    #[derive(Debug, Copy, Clone, Eq, PartialEq, Ord, PartialOrd)]
    pub struct ByteSize(pub usize);
    #[derive(Debug, Copy, Clone, Eq, PartialEq, Ord, PartialOrd)]
    pub struct BitSize(pub usize);
    impl BitSize {
        pub const fn of<T>() -> Self {
            Self(core::mem::size_of::<T>() * 8)
        }
    }
}

pub mod error {
    use alloc::borrow::Cow;
    use no_std_io::io::ErrorKind;
    #[derive(Debug, Clone, PartialEq, Eq)]
    pub struct NeedSize {
        bits: usize,
    }
    impl NeedSize {
        pub fn new(bits: usize) -> Self {
            Self { bits }
        }
        pub fn bit_size(&self) -> usize {
            self.bits
        }
        pub fn byte_size(&self) -> usize {
            (self.bits + 7) / 8
        }
    }
    #[derive(Debug, Clone, PartialEq, Eq)]
    #[non_exhaustive]
    pub enum DekuError {
        Incomplete(NeedSize),
        Parse(Cow<'static, str>),
        InvalidParam(Cow<'static, str>),
        Assertion(Cow<'static, str>),
        AssertionNoStr,
        IdVariantNotFound,
        Io(ErrorKind),
    }
    impl From<core::num::TryFromIntError> for DekuError {
        fn from(_e: core::num::TryFromIntError) -> DekuError {
            DekuError::Parse(Cow::from("error parsing int"))
        }
    }
    impl From<core::array::TryFromSliceError> for DekuError {
        fn from(_e: core::array::TryFromSliceError) -> DekuError {
            DekuError::Parse(Cow::from("error parsing from slice"))
        }
    }
    impl From<core::convert::Infallible> for DekuError {
        fn from(_e: core::convert::Infallible) -> DekuError {
            unreachable!();
        }
    }
    impl core::fmt::Display for DekuError {
        fn fmt(&self, f: &mut core::fmt::Formatter) -> core::fmt::Result {
            write!(f, "{self:?}")
        }
    }
    #[cfg(feature = "std")]
    impl std::error::Error for DekuError {}
}
pub use crate::error::DekuError;

pub mod reader {
    use crate::error::NeedSize;
    use crate::DekuError;
    use no_std_io::io::{ErrorKind, Read, Seek, SeekFrom};

    /// bits, MSB first, right aligned in `val`
    #[derive(Clone, Copy)]
    pub struct Bits {
        pub val: u64,
        pub len: usize,
    }

    pub enum ReaderRet {
        Bytes,
        Bits(Option<Bits>),
    }

    pub const MAX_BITS_AMT: usize = 64;

    pub struct Reader<'a, R: Read + Seek> {
        inner: &'a mut R,
        /// leftover bits of the last byte fetched (always < 8 bits here)
        left_val: u8,
        left_len: usize,
        pub last_bits_read_amt: usize,
        pub bits_read: usize,
    }

    impl<R: Read + Seek> Seek for Reader<'_, R> {
        fn seek(&mut self, pos: SeekFrom) -> no_std_io::io::Result<u64> {
            self.left_len = 0;
            self.left_val = 0;
            self.inner.seek(pos)
        }
    }

    impl<R: Read + Seek> AsMut<R> for Reader<'_, R> {
        fn as_mut(&mut self) -> &mut R {
            self.inner
        }
    }

    impl<'a, R: Read + Seek> Reader<'a, R> {
        pub fn new(inner: &'a mut R) -> Self {
            Self { inner, left_val: 0, left_len: 0, last_bits_read_amt: 0, bits_read: 0 }
        }

        pub fn seek_last_read(&mut self) -> no_std_io::io::Result<()> {
            let number = self.last_bits_read_amt as i64;
            let seek_amt = (number / 8).saturating_add((number % 8).signum());
            self.seek(SeekFrom::Current(seek_amt.saturating_neg()))?;
            self.bits_read -= self.last_bits_read_amt;
            self.left_len = 0;
            self.left_val = 0;
            Ok(())
        }

        pub fn into_inner(self) -> &'a mut R {
            self.inner
        }

        pub fn skip_bits(&mut self, amt: usize) -> Result<(), DekuError> {
            self.read_bits(amt)?;
            Ok(())
        }

        pub fn read_bits(&mut self, amt: usize) -> Result<Option<Bits>, DekuError> {
            if amt == 0 {
                return Ok(None);
            }
            if amt > MAX_BITS_AMT {
                return Err(DekuError::Incomplete(NeedSize::new(amt)));
            }
            let prev = self.left_len;
            let ret: u64;
            if amt == prev {
                ret = self.left_val as u64;
                self.left_val = 0;
                self.left_len = 0;
            } else if amt > prev {
                let bits_left = amt - prev;
                let mut bytes_len = bits_left / 8;
                if bits_left % 8 != 0 {
                    bytes_len += 1;
                }
                let mut buf = [0u8; 9];
                if let Err(e) = self.inner.read_exact(&mut buf[..bytes_len]) {
                    if e.kind() == ErrorKind::UnexpectedEof {
                        return Err(DekuError::Incomplete(NeedSize::new(amt)));
                    }
                    return Err(DekuError::Io(e.kind()));
                }
                let mut acc: u128 = self.left_val as u128;
                let mut i = 0;
                while i < bytes_len {
                    acc = (acc << 8) | (buf[i] as u128);
                    i += 1;
                }
                let extra = bytes_len * 8 - bits_left; // < 8
                ret = (acc >> extra) as u64;
                self.left_val = (acc & ((1u128 << extra) - 1)) as u8;
                self.left_len = extra;
            } else {
                let rest = prev - amt;
                ret = (self.left_val >> rest) as u64;
                self.left_val &= ((1u16 << rest) - 1) as u8;
                self.left_len = rest;
            }
            self.last_bits_read_amt += amt;
            self.bits_read += amt;
            Ok(Some(Bits { val: ret, len: amt }))
        }

        pub fn read_bytes(&mut self, amt: usize, buf: &mut [u8]) -> Result<ReaderRet, DekuError> {
            if self.left_len == 0 {
                if let Err(e) = self.inner.read_exact(&mut buf[..amt]) {
                    if e.kind() == ErrorKind::UnexpectedEof {
                        return Err(DekuError::Incomplete(NeedSize::new(amt * 8)));
                    }
                    return Err(DekuError::Io(e.kind()));
                }
                let bits_read = amt * 8;
                self.last_bits_read_amt += bits_read;
                self.bits_read += bits_read;
                return Ok(ReaderRet::Bytes);
            }
            Ok(ReaderRet::Bits(self.read_bits(amt * 8)?))
        }

        pub fn read_bytes_const<const N: usize>(
            &mut self,
            buf: &mut [u8; N],
        ) -> Result<ReaderRet, DekuError> {
            if self.left_len == 0 {
                if let Err(e) = self.inner.read_exact(buf) {
                    if e.kind() == ErrorKind::UnexpectedEof {
                        return Err(DekuError::Incomplete(NeedSize::new(N * 8)));
                    }
                    return Err(DekuError::Io(e.kind()));
                }
                self.last_bits_read_amt += N * 8;
                self.bits_read += N * 8;
                return Ok(ReaderRet::Bytes);
            }
            Ok(ReaderRet::Bits(self.read_bits(N * 8)?))
        }
    }
}

pub mod prelude {
    pub use crate::error::{DekuError, NeedSize};
    pub use crate::{
        deku_derive, reader::Reader, DekuContainerRead, DekuEnumExt, DekuRead, DekuReader,
    };
}

use crate::reader::Reader;

pub trait DekuReader<'a, Ctx = ()> {
    fn from_reader_with_ctx<R: no_std_io::Read + no_std_io::Seek>(
        reader: &mut Reader<R>,
        ctx: Ctx,
    ) -> Result<Self, DekuError>
    where
        Self: Sized;
}

pub trait DekuContainerRead<'a>: DekuReader<'a, ()> {
    fn from_reader<R: no_std_io::Read + no_std_io::Seek>(
        input: (&'a mut R, usize),
    ) -> Result<(usize, Self), DekuError>
    where
        Self: Sized;

    fn from_bytes(input: (&'a [u8], usize)) -> Result<((&'a [u8], usize), Self), DekuError>
    where
        Self: Sized;
}

pub trait DekuEnumExt<'__deku, T> {
    fn deku_id(&self) -> Result<T, DekuError>;
}

mod impls {
    use crate::ctx::*;
    use crate::reader::{Bits, Reader, ReaderRet};
    use crate::{DekuError, DekuReader};
    use alloc::borrow::Cow;
    use alloc::vec::Vec;
    use no_std_io::io::{Read, Seek};

    /// value of `bits` placed in a container of `nbytes` bytes, as deku 0.18.1 does
    fn assemble(bits: Bits, endian: Endian, nbytes: usize) -> u64 {
        if endian.is_be() {
            return bits.val;
        }
        // little endian: whole bytes in stream order, then the remaining (<8) bits right aligned
        // in the next byte; bytes interpreted little endian
        let full = bits.len / 8;
        let rem = bits.len % 8;
        let mut out: u64 = 0;
        let mut i = 0;
        while i < full {
            let shift = bits.len - 8 * (i + 1);
            let byte = (bits.val >> shift) & 0xff;
            out |= byte << (8 * i);
            i += 1;
        }
        if rem != 0 && full < nbytes {
            let byte = bits.val & ((1u64 << rem) - 1);
            out |= byte << (8 * full);
        }
        out
    }

    macro_rules! impl_prim {
        ($typ:ty) => {
            impl DekuReader<'_, (Endian, BitSize)> for $typ {
                #[inline]
                fn from_reader_with_ctx<R: Read + Seek>(
                    reader: &mut Reader<R>,
                    (endian, size): (Endian, BitSize),
                ) -> Result<$typ, DekuError> {
                    const MAX_TYPE_BITS: usize = BitSize::of::<$typ>().0;
                    if size.0 > MAX_TYPE_BITS {
                        return Err(DekuError::Parse(Cow::from("too much data")));
                    }
                    let bits = reader.read_bits(size.0)?;
                    let Some(bits) = bits else {
                        return Err(DekuError::Parse(Cow::from("no bits read from reader")));
                    };
                    Ok(assemble(bits, endian, MAX_TYPE_BITS / 8) as $typ)
                }
            }
            impl DekuReader<'_, Endian> for $typ {
                #[inline]
                fn from_reader_with_ctx<R: Read + Seek>(
                    reader: &mut Reader<R>,
                    endian: Endian,
                ) -> Result<$typ, DekuError> {
                    const N: usize = core::mem::size_of::<$typ>();
                    let mut buf = [0u8; N];
                    let ret = reader.read_bytes_const::<N>(&mut buf)?;
                    let a = match ret {
                        ReaderRet::Bytes => {
                            if endian.is_le() {
                                <$typ>::from_le_bytes(buf)
                            } else {
                                <$typ>::from_be_bytes(buf)
                            }
                        }
                        ReaderRet::Bits(bits) => {
                            let Some(bits) = bits else {
                                return Err(DekuError::Parse(Cow::from("no bits read from reader")));
                            };
                            assemble(bits, endian, N) as $typ
                        }
                    };
                    Ok(a)
                }
            }
            impl DekuReader<'_, BitSize> for $typ {
                #[inline]
                fn from_reader_with_ctx<R: Read + Seek>(
                    reader: &mut Reader<R>,
                    bit_size: BitSize,
                ) -> Result<$typ, DekuError> {
                    <$typ>::from_reader_with_ctx(reader, (Endian::default(), bit_size))
                }
            }
            impl DekuReader<'_> for $typ {
                #[inline]
                fn from_reader_with_ctx<R: Read + Seek>(
                    reader: &mut Reader<R>,
                    _: (),
                ) -> Result<$typ, DekuError> {
                    <$typ>::from_reader_with_ctx(reader, Endian::default())
                }
            }
        };
    }
    impl_prim!(u8);
    impl_prim!(u16);
    impl_prim!(u32);
    impl_prim!(u64);

    impl<'a, Ctx> DekuReader<'a, Ctx> for bool
    where
        Ctx: Copy,
        u8: DekuReader<'a, Ctx>,
    {
        fn from_reader_with_ctx<R: Read + Seek>(
            reader: &mut Reader<R>,
            inner_ctx: Ctx,
        ) -> Result<bool, DekuError> {
            let val = u8::from_reader_with_ctx(reader, inner_ctx)?;
            match val {
                0x01 => Ok(true),
                0x00 => Ok(false),
                _ => Err(DekuError::Parse(Cow::from("cannot parse bool value"))),
            }
        }
    }

    impl<'a, Ctx: Copy, T: Copy + Default, const N: usize> DekuReader<'a, Ctx> for [T; N]
    where
        T: DekuReader<'a, Ctx>,
    {
        fn from_reader_with_ctx<R: Read + Seek>(
            reader: &mut Reader<R>,
            ctx: Ctx,
        ) -> Result<Self, DekuError> {
            let mut out = [T::default(); N];
            let mut i = 0;
            while i < N {
                out[i] = T::from_reader_with_ctx(reader, ctx)?;
                i += 1;
            }
            Ok(out)
        }
    }

    impl<'a, T, Ctx, Predicate> DekuReader<'a, (Limit<T, Predicate>, Ctx)> for Vec<T>
    where
        T: DekuReader<'a, Ctx>,
        Ctx: Copy,
        Predicate: FnMut(&T) -> bool,
    {
        fn from_reader_with_ctx<R: Read + Seek>(
            reader: &mut Reader<R>,
            (limit, inner_ctx): (Limit<T, Predicate>, Ctx),
        ) -> Result<Self, DekuError> {
            match limit {
                Limit::Count(count) => {
                    let mut v = Vec::with_capacity(count);
                    let mut i = 0;
                    while i < count {
                        v.push(T::from_reader_with_ctx(reader, inner_ctx)?);
                        i += 1;
                    }
                    Ok(v)
                }
                _ => Err(DekuError::Parse(Cow::from("limit kind not modelled"))),
            }
        }
    }

    impl<'a, Ctx: Copy, A: DekuReader<'a, Ctx>, B: DekuReader<'a, Ctx>> DekuReader<'a, Ctx> for (A, B) {
        fn from_reader_with_ctx<R: Read + Seek>(
            reader: &mut Reader<R>,
            ctx: Ctx,
        ) -> Result<Self, DekuError> {
            let a = A::from_reader_with_ctx(reader, ctx)?;
            let b = B::from_reader_with_ctx(reader, ctx)?;
            Ok((a, b))
        }
    }
}
