"""./check selftest [names...]: vacuity / sensitivity guard.

Applies each catalogued edit to a scratch git worktree of /repo (outside /repo and /verif, removed
afterwards), runs the owning property's quick check against that worktree (VERIF_REPO) and compares
the exit code with the expectation: breaking edits (and the seeded changes under /verif/seeded)
must give exit 1, equivalent rewrites exit 0."""
import glob
import json
import os
import re
import shutil
import subprocess
import sys
import tempfile

import common
from common import REPO, VERIF, log

# (name, property, file, old, new, expected exit)
CATALOGUE = [
    ("crc_table_entry", "C03", "libadsb_deku/src/crc.rs", "    0x0005_f089,", "    0x0005_f088,", 1),
    ("crc_loop_bound", "C03", "libadsb_deku/src/crc.rs", "for i in 0..(n - 3) {", "for i in 0..(n - 4) {", 1),
    ("ac13_q_mask", "C06", "libadsb_deku/src/lib.rs", "((num & 0x1f80) >> 2) | ((num & 0x0020) >> 1) | (num & 0x000f)", "((num & 0x1f80) >> 2) | ((num & 0x0020) >> 1) | (num & 0x0007)", 1),
    ("gillham_reflect", "C06", "libadsb_deku/src/mode_ac.rs", "if five_hundreds & 1 != 0 && one_hundreds <= 6 {", "if five_hundreds & 1 == 0 && one_hundreds <= 6 {", 1),
    ("squawk_bit", "C09", "libadsb_deku/src/lib.rs", "let b2 = (num & 0b0_0000_0000_1000) >> 3;", "let b2 = (num & 0b0_0000_0000_0100) >> 2;", 1),
    ("id13_b4", "C09", "libadsb_deku/src/mode_ac.rs", "hex_gillham |= 0x0400;", "hex_gillham |= 0x0800;", 1),
    ("char_table", "C08", "libadsb_deku/src/lib.rs", "#ABCDEFGHIJKLMNOPQRSTUVWXYZ#####", "#ABCDEFGHIJKLMNOPQRSTUVWXZY#####", 1),
    ("ident_seven", "C08", "libadsb_deku/src/lib.rs", "for _ in 0..8 {", "for _ in 0..7 {", 1),
    ("vel_supersonic", "C07", "libadsb_deku/src/adsb.rs", "if self.st == 2 { 4 } else { 1 }", "if self.st == 3 { 4 } else { 1 }", 1),
    ("vel_vrate_scale", "C07", "libadsb_deku/src/adsb.rs", ".and_then(|v| v.checked_mul(64))", ".and_then(|v| v.checked_mul(32))", 1),
    ("cpr_nl_threshold", "C05", "libadsb_deku/src/cpr.rs", "if lat < 86.535_369_98 {", "if lat < 86.635_369_98 {", 1),
    ("cpr_no_zone_check", "C05", "libadsb_deku/src/cpr.rs", "if cpr_nl(lat_even) != cpr_nl(lat_odd) {", "if false && cpr_nl(lat_even) != cpr_nl(lat_odd) {", 1),
    ("lat_cpr_width", "C10", "libadsb_deku/src/adsb.rs", "    #[deku(bits = \"7\")]\n    pub trk: u8,", "    #[deku(bits = \"6\")]\n    pub trk: u8,", 1),
    ("tss_heading_scale", "C10", "libadsb_deku/src/adsb.rs", "heading as f32 * 180.0 / 256.0", "heading as f32 * 180.0 / 255.0", 1),
    ("df18_key", "C12", "rsadsb_common/src/lib.rs", "let icao = cf.aa;", "let icao = pi;", 1),
    ("jump_threshold_ge", "C13", "rsadsb_common/src/lib.rs", "if kilo_distance > max_range {", "if kilo_distance >= max_range {", 1),
    ("callsign_keep_first", "C14", "rsadsb_common/src/lib.rs", "state.callsign = Some(identification.cn.clone());", "if state.callsign.is_none() { state.callsign = Some(identification.cn.clone()); }", 1),
    ("prune_le", "C15", "rsadsb_common/src/lib.rs", "if time < std::time::Duration::from_secs(filter_time) {", "if time <= std::time::Duration::from_secs(filter_time) {", 1),
    ("crc_cache_rewind", "C19", "libadsb_deku/src/lib.rs", "self.rewound += offset.unsigned_abs() as usize;", "self.rewound = 1;", 1),
    # equivalent rewrites: must stay quiet
    ("eq_ac13_reorder", "C06", "libadsb_deku/src/lib.rs", "let m_bit = num & 0x0040;\n        let q_bit = num & 0x0010;", "let q_bit = num & 0x0010;\n        let m_bit = num & 0x0040;", 0),
    ("eq_squawk_rename", "C09", "libadsb_deku/src/lib.rs", "let num: u16 = ((a << 12) | (b << 8) | (c << 4) | d) as u16;\n        Ok(num)", "let code: u16 = ((a << 12) | (b << 8) | (c << 4) | d) as u16;\n        Ok(code)", 0),
]


def run_case(name, prop, edits, expect, patch=None):
    wt = tempfile.mkdtemp(prefix="adsbselftest-")
    os.rmdir(wt)
    subprocess.run(["git", "-C", REPO, "worktree", "add", "-q", "--detach", wt, "HEAD"], check=True)
    try:
        if patch:
            r = subprocess.run(["git", "-C", wt, "apply", patch], capture_output=True, text=True)
            if r.returncode != 0:
                return name, prop, "patch does not apply: " + r.stderr[:200], False
        for f, old, new in edits:
            p = os.path.join(wt, f)
            s = open(p).read()
            if s.count(old) != 1:
                return name, prop, "anchor not found / ambiguous (%d)" % s.count(old), False
            open(p, "w").write(s.replace(old, new))
        env = dict(os.environ)
        env["VERIF_REPO"] = wt
        r = subprocess.run([os.path.join(VERIF, "check"), prop, "--tier", "quick"], env=env, capture_output=True, text=True)
        ok = (r.returncode == expect)
        last = [l for l in r.stdout.splitlines() if l.strip()][-1:] or [""]
        return name, prop, "exit=%d expected=%d %s" % (r.returncode, expect, last[0][:160]), ok
    finally:
        subprocess.run(["git", "-C", REPO, "worktree", "remove", "--force", wt])
        shutil.rmtree(wt, ignore_errors=True)


def main(argv):
    results = []
    cases = []
    for (name, prop, f, old, new, expect) in CATALOGUE:
        cases.append((name, prop, [(f, old, new)], expect, None))
    for d in sorted(glob.glob(os.path.join(VERIF, "seeded", "*"))):
        meta = os.path.join(d, "meta.json")
        patch = os.path.join(d, "patch.diff")
        if os.path.exists(meta) and os.path.exists(patch):
            m = json.load(open(meta))
            cases.append(("seeded/" + os.path.basename(d), m["property"], [], 1, patch))
    for c in cases:
        if argv and not any(a in c[0] or a == c[1] for a in argv):
            continue
        r = run_case(*c)
        results.append(r)
        print("%-28s %-4s %s %s" % (r[0], r[1], "OK  " if r[3] else "MISS", r[2]), flush=True)
    bad = [r for r in results if not r[3]]
    with open(os.path.join(VERIF, "selftest_last.json"), "w") as f:
        json.dump([{"case": r[0], "property": r[1], "result": r[2], "as_expected": r[3]} for r in results], f, indent=1)
    print("selftest: %d cases, %d not as expected" % (len(results), len(bad)))
    return 0 if not bad else 1
