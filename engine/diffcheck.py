"""Assumption monitor for the deku runtime model: decode the same frames with a build of /repo's
current tree against the REAL deku 0.18.1 and a build against engine/deku_model; the Debug text of
every result, the error class and the read/seek call sequence must coincide.  A divergence is
exit 2 (the model is wrong), never a violation of a property."""
import glob
import os
import random
import re
import shutil
import sys
import time

import common
from common import Scratch, Undecided, log, sh, VERIF, REPO, DEKU_MODEL

PROBE_CARGO = """[package]
name = "verif_probe"
version = "0.0.0"
edition = "2021"

[dependencies]
adsb_deku = { path = "../libadsb_deku" }
deku = { %s, default-features = false, features = ["bits", "std"] }

[lints.rust]
unexpected_cfgs = { level = "allow" }
"""


def build_probe(kind):
    sc = Scratch(kind="kani" if kind == "model" else "native", with_common=False)
    # the model build is a *native* build here: no Kani involved
    if kind == "model":
        shutil.rmtree(sc.target, ignore_errors=True)
        seed = os.path.join(common.CACHE, "model-native-seed")
        if os.path.isdir(seed):
            shutil.copytree(seed, sc.target, symlinks=True)
    os.makedirs(sc.path("verif_probe/src"))
    dep = 'path = "%s"' % DEKU_MODEL if kind == "model" else 'version = "0.18.1"'
    sc.add_file("verif_probe/Cargo.toml", PROBE_CARGO % dep)
    shutil.copy(os.path.join(VERIF, "engine", "diffcheck", "probe_main.rs"), sc.path("verif_probe/src/main.rs"))
    sc.add_file("Cargo.toml", sc.read("Cargo.toml").replace('members = [', 'members = ["verif_probe", '))
    rc, out, dt = sh(["cargo", "build", "--offline", "--release", "-p", "verif_probe"], cwd=sc.dir,
                     env={"CARGO_TARGET_DIR": sc.target}, timeout=1500)
    if rc != 0:
        sc.cleanup()
        raise Undecided("probe build (%s) failed:\n%s" % (kind, out[-4000:]))
    return sc, os.path.join(sc.target, "release", "verif_probe")


def corpus(n, seed):
    rnd = random.Random(seed)
    lines = []
    # every hex literal of the repository's own tests / README
    for p in glob.glob(os.path.join(REPO, "libadsb_deku", "tests", "*")) + [os.path.join(REPO, "README.md"),
                                                                                 os.path.join(REPO, "libadsb_deku", "src", "lib.rs")]:
        try:
            txt = open(p, errors="replace").read()
        except OSError:
            continue
        for m in re.finditer(r"\b([0-9a-fA-F]{14}|[0-9a-fA-F]{28})\b", txt):
            lines.append(m.group(1).lower())
    # recorded counterexamples
    for p in glob.glob(os.path.join(VERIF, "replays", "*", "*.json")) + glob.glob(os.path.join(VERIF, "seeded", "*", "*.hex")):
        try:
            txt = open(p).read()
        except OSError:
            continue
        for m in re.finditer(r"\b([0-9a-f]{14,64})\b", txt):
            lines.append(m.group(1)[:64])
    for _ in range(n):
        L = rnd.choice([7, 14, 14, 14, 14, 14, 0, 1, 3, 4, 5, 6, 8, 13, 15, 20, 32])
        b = bytearray(rnd.getrandbits(8) for _ in range(L))
        if L > 0 and rnd.random() < 0.85:
            df = rnd.choice([0, 4, 5, 11, 16, 17, 17, 17, 17, 18, 18, 19, 20, 21, 24, 27, 31, rnd.randrange(32)])
            b[0] = (df << 3) | (b[0] & 7)
        if L >= 5 and rnd.random() < 0.25:
            b[4] = (31 << 3) | rnd.choice([0, 1, 0, 1, 2, 5])
            if L >= 8 and rnd.random() < 0.7:
                b[5] &= 0x33
                b[7] &= 0x3f
                if L >= 10 and rnd.random() < 0.7:
                    b[9] = (b[9] & 0x1f) | (rnd.choice([0, 1, 2]) << 5)
        if L >= 5 and rnd.random() < 0.1:
            b[4] = rnd.choice([0x00, 0x10, 0x20, 0x30])
        lines.append(bytes(b).hex())
    return lines


def run(n, seed):
    t0 = time.time()
    lines = corpus(n, seed)
    inp = "\n".join(lines) + "\n"
    outs = {}
    for kind in ("real", "model"):
        sc, exe = build_probe(kind)
        try:
            import subprocess
            p = subprocess.run([exe], input=inp, capture_output=True, text=True, timeout=1200)
            outs[kind] = p.stdout.splitlines()
        finally:
            sc.cleanup()
    a, b = outs["real"], outs["model"]
    diffs = [(x, y) for x, y in zip(a, b) if x != y]
    if len(a) != len(b) or len(a) != len(lines):
        raise Undecided("probe output length mismatch real=%d model=%d expected=%d" % (len(a), len(b), len(lines)))
    ok = sum(1 for x in a if " | OK " in x)
    return {"frames": len(lines), "differences": len(diffs), "accepted_frames": ok,
            "first_differences": diffs[:3], "wall_s": round(time.time() - t0, 1),
            "sample": a[:2]}


def main(argv):
    n = int(argv[0]) if argv else 20000
    seed = int(os.environ.get("VERIF_SEED", "1") or 1)
    r = run(n, seed)
    print(r["frames"], "frames,", r["differences"], "differences,", r["accepted_frames"], "accepted,", r["wall_s"], "s")
    for x, y in r["first_differences"]:
        print("REAL :", x[:400])
        print("MODEL:", y[:400])
    return 0 if r["differences"] == 0 else 2


if __name__ == "__main__":
    sys.exit(main(sys.argv[1:]))
