#![no_std]
#[macro_export] macro_rules! trace { ($($t:tt)*) => {{ if false { let _ = ::core::format_args!($($t)*); } }} }
#[macro_export] macro_rules! debug { ($($t:tt)*) => {{ if false { let _ = ::core::format_args!($($t)*); } }} }
#[macro_export] macro_rules! info { ($($t:tt)*) => {{ if false { let _ = ::core::format_args!($($t)*); } }} }
#[macro_export] macro_rules! warn { ($($t:tt)*) => {{ if false { let _ = ::core::format_args!($($t)*); } }} }
#[macro_export] macro_rules! error { ($($t:tt)*) => {{ if false { let _ = ::core::format_args!($($t)*); } }} }
