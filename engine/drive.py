"""Decides one property: run every obligation that carries it, classify failures, write evidence."""
import json
import os
import re
import shutil
import time

import build
import common
import registry
from common import Undecided, log

TAG_RE = re.compile(r"^\[([C0-9,]+)\]\s*")

# Kani's automatically generated checks = C01 obligations (panic freedom); these classes are
# verifier bookkeeping, not obligations of the code
IGNORED_CLASSES = ("unwind", "reachability_check", "cover")


def classify(check):
    """-> (kind, props): kind in tagged / default / unwind / cover / harness"""
    d = check["desc"]
    m = TAG_RE.match(d)
    if m:
        return "tagged", m.group(1).split(",")
    cat = check.get("category", "")
    if cat == "unwind" or "unwinding assertion" in d:
        return "unwind", []
    if cat == "cover":
        return "cover", []
    f = check.get("file", "")
    if "/verif_" in f or f.startswith("verif_") or "engine/deku_model" in f:
        # arithmetic of the spec / harness / dependency model itself: a failure here is a defect of
        # the machinery, never reported as a violation of the code
        return "harness", []
    return "default", ["C01"]


def load_known():
    return common.load_known_findings()


RESULT_CACHE = os.path.join(common.CACHE, "results")


def tree_key(sc, crate="rsadsb_common"):
    """content hash of everything a harness result of `crate` depends on except the harness selection"""
    import hashlib
    h = hashlib.sha256()
    roots = [os.path.join(sc.dir, "libadsb_deku", "src"), os.path.join(common.DEKU_MODEL, "src")]
    if crate != "adsb_deku":
        roots += [os.path.join(sc.dir, "rsadsb_common", "src"), os.path.join(common.TRACING_SHIM, "src")]
    for root in roots:
        if not os.path.isdir(root):
            continue
        for dp, dn, fn in sorted(os.walk(root)):
            for n in sorted(fn):
                if n == "verif_harness.rs" or n == "verif_replay.rs":
                    continue
                h.update(n.encode())
                with open(os.path.join(dp, n), "rb") as f:
                    h.update(f.read())
    h.update(b"kani-0.68.0/cbmc-6.11")
    return h.hexdigest()


def cache_path(tk, o, feat):
    import hashlib
    sem = {k2: o.get(k2) for k2 in ("name", "crate", "fn", "args", "unwind", "stubs", "kani_flags")}
    k = hashlib.sha256((tk + json.dumps(sem, sort_keys=True) + feat).encode()).hexdigest()
    return os.path.join(RESULT_CACHE, k + ".json")


def run_group(pid, tier, crate, feat, obls, jobs):
    """One Kani build (crate x feature set) -> per-harness results with full check lists.
    Results are cached by content hash (sources of this tree + spec + harness + tool versions), so
    that properties sharing a harness pay for it once per tree state."""
    sc0 = build.make_scratch(obls, "kani")
    tk = tree_key(sc0, crate)
    sc0.cleanup()
    cached = {}
    todo = []
    use_cache = os.environ.get("VERIF_NO_CACHE", "") == ""
    for o in obls:
        cp = cache_path(tk, o, feat)
        if use_cache and os.path.exists(cp):
            try:
                with open(cp) as f:
                    cr = json.load(f)
                if cr.get("status") == "FAILED" and not cr.get("playback"):
                    raise ValueError("cached failure without counterexample: recompute")
                cached[o["name"]] = cr
                cached[o["name"]]["cached"] = True
                continue
            except Exception:
                pass
        todo.append(o)
    if not todo:
        return cached, 0.0, ""
    res, dt, out = run_group_uncached(pid, tier, crate, feat, todo, jobs)
    os.makedirs(RESULT_CACHE, exist_ok=True)
    for o in todo:
        r = res.get(o["name"])
        if r and r["status"] in ("SUCCESSFUL", "FAILED"):
            with open(cache_path(tk, o, feat), "w") as f:
                json.dump(r, f)
    res.update(cached)
    return res, dt, out


def run_group_uncached(pid, tier, crate, feat, obls, jobs):
    sc = build.make_scratch(obls, "kani")
    try:
        names = [o["name"] for o in obls]
        tmo = max(o["timeout"] for o in obls)
        features = None if feat == "std" else feat
        outdir = os.path.join(sc.dir, "result_output_dir")
        jpath = os.path.join(sc.dir, "kani_results.json")
        cmd = ["cargo", "kani", "-p", crate, "-Z", "function-contracts", "-Z", "stubbing",
               "-Z", "unstable-options", "-j", str(jobs), "--exact", "--output-format", "terse",
               "--output-into-files", "--export-json", jpath, "--harness-timeout", "%ds" % tmo]
        if features is not None:
            cmd += ["--no-default-features", "--features", features]
        if all(o["kani_flags"] for o in obls):
            cmd += [x for x in obls[0]["kani_flags"] if x not in ("-Z", "unstable-options")]
        if os.environ.get("VERIF_SOLVER"):
            cmd += ["--solver", os.environ["VERIF_SOLVER"]]
        for h in names:
            cmd += ["--harness", "verif_harness::" + h]
        cmd = ["bash", "-c", "ulimit -v %d; exec \"$@\"" % (28 * 1024 * 1024), "--"] + cmd
        rc, out, dt = common.sh(cmd, cwd=sc.dir, env={"CARGO_TARGET_DIR": sc.target},
                                timeout=tmo * (1 + len(names) // max(jobs, 1)) + 600)
        if "error: could not compile" in out or "error[E" in out:
            raise Undecided("scratch build failed (crate %s, features %s):\n%s" % (crate, feat, out[-5000:]))
        jres = {}
        jstats = {}
        if os.path.exists(jpath):
            try:
                with open(jpath) as f:
                    jd = json.load(f)
                for h in jd.get("verification_results", {}).get("results", []):
                    jres[h["harness_id"].split("::")[-1]] = h
                for h in jd.get("cbmc", []):
                    jstats[h["harness_id"].split("::")[-1]] = h.get("cbmc_stats", {})
            except Exception as e:  # noqa
                log("could not parse kani json: %s" % e)
        res = {}
        for o in obls:
            fn = os.path.join(outdir, "verif_harness::" + o["name"])
            body = ""
            if os.path.exists(fn):
                with open(fn, errors="replace") as f:
                    body = f.read()
            h = jres.get(o["name"])
            checks = []
            status = "UNDECIDED"
            tsec = None
            if h:
                for c in h.get("checks", []):
                    loc = c.get("location") or {}
                    checks.append({"id": str(c.get("id")), "status": {"Success": "SUCCESS", "Failure": "FAILURE", "Unreachable": "UNREACHABLE", "Satisfied": "SATISFIED"}.get(c.get("status"), str(c.get("status")).upper()),
                                   "desc": (c.get("description") or "").strip('"'), "category": c.get("category", ""),
                                   "file": loc.get("file", ""), "fn": c.get("function", ""),
                                   "loc": "%s:%s in %s" % (loc.get("file", "?"), loc.get("line", "?"), c.get("function", "?"))})
                status = {"Success": "SUCCESSFUL", "Failure": "FAILED"}.get(h.get("status"), "UNDECIDED")
                tsec = (h.get("duration_ms") or 0) / 1000.0
            if re.search(r"CBMC failed|out of memory|timed out|Timeout", body) or not checks:
                status = "UNDECIDED"
            if status == "FAILED" and not any(c["status"] == "FAILURE" for c in checks):
                status = "UNDECIDED"
            res[o["name"]] = {"status": status, "checks": checks, "time_s": tsec,
                              "tail": body[-2500:] if body else out[-2500:],
                              "cbmc_stats": jstats.get(o["name"], {}),
                              "stubs": re.findall(r"- Stub: (.*)", body)}
        # counterexamples for failed harnesses (one parallel concrete-playback run)
        need_pb = []
        for o in obls:
            r = res[o["name"]]
            failed = [c for c in r["checks"] if c["status"] == "FAILURE"]
            if failed and any(classify(c)[0] in ("tagged", "default") for c in failed):
                need_pb.append(o)
        if need_pb:
            # --concrete-playback is incompatible with -j: one cargo-kani process per failing harness,
            # a few of them concurrently (they share the already compiled scratch target)
            from concurrent.futures import ThreadPoolExecutor

            def one(o):
                cmd = ["cargo", "kani", "-p", crate, "-Z", "function-contracts", "-Z", "stubbing",
                       "-Z", "unstable-options", "-Z", "concrete-playback", "--concrete-playback=print",
                       "--exact", "--output-format", "terse", "--harness-timeout", "%ds" % (o["timeout"] + 300),
                       "--harness", "verif_harness::" + o["name"]]
                if features is not None:
                    cmd += ["--no-default-features", "--features", features]
                if o["kani_flags"]:
                    cmd += [x for x in o["kani_flags"] if x not in ("-Z", "unstable-options")]
                cmd = ["bash", "-c", "ulimit -v %d; exec \"$@\"" % (28 * 1024 * 1024), "--"] + cmd
                rc2, out2, dt2 = common.sh(cmd, cwd=sc.dir, env={"CARGO_TARGET_DIR": sc.target}, timeout=o["timeout"] + 900)
                return o["name"], common.extract_playback(out2)

            with ThreadPoolExecutor(max_workers=min(6, max(1, jobs // 2))) as ex:
                for name, vals in ex.map(one, need_pb[:24]):
                    res[name]["playback"] = vals
        return res, dt, out
    finally:
        sc.cleanup()


def native_replay(obls_failed, feat="std"):
    """obls_failed: list of (obl, hex). Returns name -> parsed native output."""
    if not obls_failed:
        return {}
    all_obls = [o for o, _ in obls_failed]
    sc = build.make_scratch(all_obls, "native")
    out = {}
    try:
        exe = build.build_native(sc)
        for o, hx in obls_failed:
            rc, txt, dt = common.sh([exe, o["name"], hx], timeout=120)
            fails = re.findall(r"^FAILED-OBLIGATION: (.*)$", txt, re.M)
            panic = re.search(r"PANIC: (.*)", txt)
            out[o["name"]] = {"fails": fails, "panic": panic.group(1) if panic else None,
                              "text": txt[-4000:], "outside": "outside_precondition=true" in txt}
    finally:
        sc.cleanup()
    return out


def native_sweep(pid, seed, tier):
    """Bounded stand-in (labelled bounded, never counted as proved): the real Frame::from_bytes
    (real deku) against the spec on every truncation / extension of a corpus of frames.  Used where
    CBMC cannot reach: buffers shorter than their format (error values make every later branch
    ambiguous for symbolic execution; measured: > 400 s even for the empty buffer)."""
    import diffcheck
    import random
    import subprocess
    o = [x for x in registry.OBL if x["name"] == "frame_any_native"]
    n = 1500 if tier == "quick" else 20000
    frames = [bytes.fromhex(h) for h in diffcheck.corpus(n, seed or 1) if len(h) in (14, 28)]
    rnd = random.Random(seed or 1)
    inputs = []
    for f in frames:
        for ln in range(0, len(f)):
            inputs.append(bytes([ln]) + f[:ln])
        pad = bytes(rnd.getrandbits(8) for _ in range(32 - len(f)))
        for ln in (len(f), len(f) + 1, 20, 32):
            if ln >= len(f):
                inputs.append(bytes([ln]) + (f + pad)[:ln])
    # every format code at every length with random content
    for df in range(32):
        for ln in range(0, 33):
            b = bytearray(rnd.getrandbits(8) for _ in range(ln))
            if ln:
                b[0] = (df << 3) | (b[0] & 7)
            inputs.append(bytes([ln]) + bytes(b))
    sc = build.make_scratch(o, "native")
    fails = []
    try:
        exe = build.build_native(sc)
        p = subprocess.run([exe, "frame_any_native", "-"], input="\n".join(i.hex() for i in inputs) + "\n",
                           capture_output=True, text=True, timeout=1800)
        lines = [l for l in p.stdout.splitlines() if l.startswith("LINE ")]
        if len(lines) != len(inputs):
            raise Undecided("native sweep produced %d lines for %d inputs" % (len(lines), len(inputs)))
        for l in lines:
            parts = l.split(" ", 2)
            hx = parts[1]
            rest = parts[2] if len(parts) > 2 else ""
            if rest.startswith("PANIC"):
                fails.append((hx, ["PANIC " + rest[6:]]))
            else:
                m = re.match(r"checks=(\d+) outside=(\w+) failed=(\d+) ?(.*)", rest)
                if m and int(m.group(3)) > 0:
                    fails.append((hx, m.group(4).split(" ;; ")))
    finally:
        sc.cleanup()
    return len(inputs), fails


def cpr_sweep(seed, tier):
    """BOUNDED native stand-in for C05's pairing contract (the full-domain Kani harness needs more
    than 30 min): the real get_position against the standard's decoder on CPR-encoded pairs of true
    positions concentrated around all 58 NL transition latitudes (both hemispheres), the poles, the
    equator and the antimeridian, both orders, small displacements, plus random raw quadruples."""
    import math
    import random
    import struct
    import subprocess
    rnd = random.Random(seed or 1)
    o = [x for x in registry.OBL if x["name"] == "cpr_pos_full"]

    def nl(lat):
        a = abs(lat)
        if a >= 87.0:
            return 1
        for n in range(59, 1, -1):
            t = round(180.0 / math.pi * math.acos(math.sqrt((1 - math.cos(math.pi / 30)) / (1 - math.cos(2 * math.pi / n)))), 8)
            if a < t:
                return n
        return 1

    def enc(lat, lon, i):
        dlat = 360.0 / (60 - i)
        yz = int(math.floor(131072 * ((lat % dlat) / dlat) + 0.5)) % 131072
        rlat = dlat * (yz / 131072.0 + math.floor(lat / dlat))
        dlon = 360.0 / max(nl(rlat) - i, 1)
        xz = int(math.floor(131072 * ((lon % dlon) / dlon) + 0.5)) % 131072
        return yz, xz

    trans = [180.0 / math.pi * math.acos(math.sqrt((1 - math.cos(math.pi / 30)) / (1 - math.cos(2 * math.pi / n)))) for n in range(59, 1, -1)] + [87.0]
    pts = []
    offs = [0.0, 1e-6, -1e-6, 1e-4, -1e-4, 5e-4, -5e-4, 2e-3, -2e-3, 0.01, -0.01]
    for t in trans:
        for sgn in (1, -1):
            for d in offs:
                for lon in (0.0, 100.0, -100.0, 179.999, -179.999, 45.5):
                    pts.append((sgn * (t + d), lon))
    for lat in (0.0, 1e-5, -1e-5, 89.999, -89.999, 90.0, -90.0, 45.0, -45.0):
        for lon in (0.0, 179.9999, -180.0, -179.9999, 90.0, -90.0, 1e-5):
            pts.append((lat, lon))
    n_rand = 3000 if tier == "quick" else 60000
    for _ in range(n_rand):
        pts.append((rnd.uniform(-90, 90), rnd.uniform(-180, 180)))
    inputs = []
    for (lat, lon) in pts:
        for (dl, dn) in ((0.0, 0.0), (0.001, 0.001), (-0.002, 0.0005), (0.0009, -0.002)):
            lat2 = max(-90.0, min(90.0, lat + dl))
            lon2 = ((lon + dn + 180.0) % 360.0) - 180.0
            e = enc(lat, lon, 0)
            od = enc(lat2, lon2, 1)
            # order 1: even first, odd second ; order 2: odd first, even second
            inputs.append(struct.pack("<BBIIII", 0, 1, e[0], od[0], e[1], od[1]))
            inputs.append(struct.pack("<BBIIII", 1, 0, od[0], e[0], od[1], e[1]))
    for _ in range(n_rand):
        inputs.append(struct.pack("<BBIIII", rnd.getrandbits(1), rnd.getrandbits(1), rnd.getrandbits(17), rnd.getrandbits(17), rnd.getrandbits(17), rnd.getrandbits(17)))
    sc = build.make_scratch(o, "native")
    fails = []
    try:
        exe = build.build_native(sc)
        p = subprocess.run([exe, "cpr_pos_full", "-"], input="\n".join(i.hex() for i in inputs) + "\n", capture_output=True, text=True, timeout=1800)
        lines = [l for l in p.stdout.splitlines() if l.startswith("LINE ")]
        if len(lines) != len(inputs):
            raise Undecided("cpr sweep produced %d lines for %d inputs" % (len(lines), len(inputs)))
        decoded = 0
        for l in lines:
            parts = l.split(" ", 2)
            rest = parts[2] if len(parts) > 2 else ""
            if rest.startswith("PANIC"):
                fails.append((parts[1], ["[C05] PANIC " + rest[6:]]))
            else:
                m = re.match(r"checks=(\d+) outside=(\w+) failed=(\d+) ?(.*)", rest)
                if m and int(m.group(3)) > 0:
                    fails.append((parts[1], m.group(4).split(" ;; ")))
    finally:
        sc.cleanup()
    return len(inputs), fails


def reader_sweep(seed, tier):
    """BOUNDED native stand-in for C19's fault half: Frame::from_reader under every placement of one
    Interrupted error / one short read (call index 0..=15), all-single-byte reads, and pairs of
    interrupts, on corpus frames of every format.  CBMC cannot follow error values (measured)."""
    import diffcheck
    import subprocess
    o = [x for x in registry.OBL if x["name"] == "reader_any_native"]
    n = 600 if tier == "quick" else 6000
    frames = [bytes.fromhex(h) for h in diffcheck.corpus(n, seed or 1)]
    frames = [f for f in frames if 0 < len(f) <= 32]
    inputs = []
    for f in frames:
        inputs.append(bytes([len(f), 0, 0, 0]) + f)
        for k in range(0, 16):
            inputs.append(bytes([len(f), 1, k, 0]) + f)
            inputs.append(bytes([len(f), 2, k, 0]) + f)
    sc = build.make_scratch(o, "native")
    fails = []
    try:
        exe = build.build_native(sc)
        p = subprocess.run([exe, "reader_any_native", "-"], input="\n".join(i.hex() for i in inputs) + "\n",
                           capture_output=True, text=True, timeout=1800)
        lines = [l for l in p.stdout.splitlines() if l.startswith("LINE ")]
        if len(lines) != len(inputs):
            raise Undecided("reader sweep produced %d lines for %d inputs" % (len(lines), len(inputs)))
        for l in lines:
            parts = l.split(" ", 2)
            rest = parts[2] if len(parts) > 2 else ""
            if rest.startswith("PANIC"):
                fails.append((parts[1], ["[C19] PANIC " + rest[6:]]))
            else:
                m = re.match(r"checks=(\d+) outside=(\w+) failed=(\d+) ?(.*)", rest)
                if m and int(m.group(3)) > 0:
                    fails.append((parts[1], m.group(4).split(" ;; ")))
    finally:
        sc.cleanup()
    return len(inputs), fails


def model_monitor(tier, seed):
    """Assumption monitor of the deku runtime model (engine/diffcheck.py): real deku vs model on the
    current tree; cached per tree state.  A difference is exit 2 (the model is wrong), never a
    violation."""
    import hashlib
    import diffcheck
    h = hashlib.sha256()
    for root in (os.path.join(common.REPO, "libadsb_deku", "src"), os.path.join(common.DEKU_MODEL, "src")):
        for dp, dn, fn in sorted(os.walk(root)):
            for n in sorted(fn):
                with open(os.path.join(dp, n), "rb") as f:
                    h.update(n.encode() + f.read())
    n = 20000 if tier == "quick" else 300000
    key = os.path.join(RESULT_CACHE, "diffcheck-%s-%d-%d.json" % (h.hexdigest()[:32], n, seed or 1))
    if os.path.exists(key) and os.environ.get("VERIF_NO_CACHE", "") == "":
        with open(key) as f:
            r = json.load(f)
        r["reused_for_identical_tree"] = True
    else:
        r = diffcheck.run(n, seed or 1)
        os.makedirs(RESULT_CACHE, exist_ok=True)
        if r["differences"] == 0:
            with open(key, "w") as f:
                json.dump(r, f)
    if r["differences"] != 0:
        raise Undecided("deku model diverges from real deku 0.18.1 on %d of %d frames: %s" % (r["differences"], r["frames"], str(r["first_differences"])[:600]))
    return {"frames": r["frames"], "differences": 0, "accepted_frames": r["accepted_frames"], "wall_s": r["wall_s"],
            "reused_for_identical_tree": bool(r.get("reused_for_identical_tree"))}


def check_property(pid, tier):
    t0 = time.time()
    seed = int(os.environ.get("VERIF_SEED", "0") or 0)
    obls = registry.select(pid, tier)
    if pid == "C03":
        import verus_crc
        return verus_crc.check(tier, seed, obls)
    if not obls:
        raise Undecided("no obligations registered for %s" % pid)
    native_monitors = [o for o in registry.OBL if (pid + "-native") in o["props"]]
    monitor_notes = []
    if native_monitors:
        nat = native_replay([(o, "") for o in native_monitors])
        for o in native_monitors:
            r = nat.get(o["name"], {})
            if r.get("fails") or r.get("panic") or "checks=" not in r.get("text", ""):
                raise Undecided("assumption monitor %s failed natively: %s" % (o["name"], r.get("text", "")[:500]))
            monitor_notes.append("%s: validated natively on this run (%s)" % (o["name"], o["domain"]))
    jobs = int(os.environ.get("VERIF_JOBS", "14"))
    monitor = None
    if any(o["crate"] == "adsb_deku" for o in obls):
        monitor = model_monitor(tier, seed)
    groups = {}
    for o in obls:
        if pid == "C20":
            fs = o["features"] if (len(o["features"]) > 1 and (tier != "quick" or o.get("dual_quick"))) else []
        else:
            fs = [o["features"][0]]   # primary configuration of the obligation
        for f in fs:
            groups.setdefault((o["crate"], f, tuple(o["kani_flags"])), []).append(o)
    results = {}  # (name, feat) -> result
    solver_time = 0.0
    glist = sorted(groups.items())
    total_h = max(1, sum(len(g) for _, g in glist))
    from concurrent.futures import ThreadPoolExecutor

    def run_one(item):
        (crate, feat, _flags), gl = item
        log("[%s] kani: crate=%s features=%s harnesses=%d" % (pid, crate, feat, len(gl)))
        share = jobs if len(glist) == 1 else max(2, (jobs * len(gl)) // total_h)
        res, dt, out = run_group(pid, tier, crate, feat, gl, share)
        return feat, res

    # the (crate x configuration) groups are independent builds: run them side by side
    with ThreadPoolExecutor(max_workers=max(1, min(3, len(glist)))) as ex:
        for feat, res in ex.map(run_one, glist):
            for n, r in res.items():
                results[(n, feat)] = r
                solver_time += r["time_s"] or 0.0

    byname = {o["name"]: o for o in obls}
    undecided = []
    violations = []   # (harness, feat, clause, hex, native)
    n_obl = 0
    n_ok = 0
    samples = []
    to_replay = []
    per_harness = []
    for (name, feat), r in sorted(results.items()):
        o = byname[name]
        mine_ok = 0
        mine_fail = []
        unwind_fail = False
        for c in r["checks"]:
            kind, props = classify(c)
            if kind == "unwind" and c["status"] == "FAILURE":
                unwind_fail = True
            relevant = (pid in props) or (pid == "C20" and kind == "tagged") or (pid == "C20" and kind == "default")
            if kind in ("tagged", "default") and relevant:
                n_obl += 1
                if c["status"] == "SUCCESS":
                    n_ok += 1
                    mine_ok += 1
                elif c["status"] == "FAILURE":
                    mine_fail.append(c)
                elif c["status"] in ("UNREACHABLE",):
                    n_ok += 1  # vacuously true on this harness' domain (dead code for this id byte)
                    mine_ok += 1
                else:
                    undecided.append("%s[%s]: %s is %s" % (name, feat, c["desc"][:80], c["status"]))
        hfail = [c for c in r["checks"] if classify(c)[0] == "harness" and c["status"] == "FAILURE"]
        if hfail:
            undecided.append("%s[%s]: check inside the verification machinery failed: %s @ %s" % (name, feat, hfail[0]["desc"], hfail[0]["loc"]))
        covers = [c for c in r["checks"] if classify(c)[0] == "cover"]
        unsat_cov = [c for c in covers if c["status"] not in ("SATISFIED", "SUCCESS") and c["desc"].startswith("cover:")]
        if r["status"] == "UNDECIDED" or unwind_fail or not r["checks"]:
            undecided.append("%s[%s]: verifier gave no verdict (%s)" % (name, feat, (r["tail"] or "")[-300:].replace("\n", " | ")))
        if unsat_cov and r["status"] != "UNDECIDED":
            undecided.append("%s[%s]: vacuity guard: cover not satisfied: %s" % (name, feat, unsat_cov[0]["desc"]))
        per_harness.append({"harness": name, "features": feat, "status": r["status"], "time_s": r["time_s"],
                            "result_reused_for_identical_tree": bool(r.get("cached")),
                            "obligations_ok": mine_ok, "obligations_failed": len(mine_fail),
                            "domain": o["domain"], "bounded": o["bounded"], "functions": o["functions"],
                            "stubs": r["stubs"]})
        if len(samples) < 6 and r["checks"]:
            tagged = [c["desc"] for c in r["checks"] if pid in classify(c)[1]][:2]
            samples.append({"harness": name, "features": feat, "domain": o["domain"], "obligations": tagged})
        if mine_fail:
            vals = r.get("playback")
            hx = "".join("%02x" % b for v in (vals or []) for b in v)
            to_replay.append((o, feat, mine_fail, hx, vals is not None, r))

    # bounded native stand-ins (concrete cases executed on the real code; never counted as proved)
    nb = registry.native_bounded(pid)
    nb_info = None
    nb_viol = []
    if nb:
        nat = native_replay([(o, "") for o in nb])
        nb_fail = 0
        for o in nb:
            r = nat.get(o["name"], {})
            bad = [c for c in r.get("fails", []) if TAG_RE.match(c) and pid in TAG_RE.match(c).group(1).split(",")]
            if r.get("panic"):
                bad.append("PANIC " + r["panic"])
            if "checks=" not in r.get("text", "") and not r.get("panic"):
                undecided.append("%s: native run gave no result" % o["name"])
            if bad:
                nb_fail += 1
                nb_viol.append((o, bad, r))
        nb_info = {"what": "BOUNDED: concrete cases executed natively on the real code", "cases": len(nb), "failed": nb_fail,
                   "names": [o["name"] for o in nb][:40]}
    sweep_info = None
    sweep_viol = []
    if pid == "C05":
        n_eval, sf = cpr_sweep(seed, tier)
        sweep_info = {"what": "BOUNDED native sweep (real code): get_position vs the standard's decoder on CPR-encoded pairs around all 58 NL transition latitudes (both hemispheres), poles, equator, antimeridian, both orders, four displacements, plus random raw quadruples", "evaluations": n_eval, "failures": len(sf)}
        sweep_viol = [(hx, cl) for hx, cl in sf][:5]
    if pid == "C19":
        n_eval, sf = reader_sweep(seed, tier)
        sweep_info = {"what": "BOUNDED native sweep (real deku): Frame::from_reader vs Frame::from_bytes under all-single-byte reads, one short read at call 0..15, one Interrupted error at call 0..15, over corpus frames of every format", "evaluations": n_eval, "failures": len(sf)}
        sweep_viol = [(hx, cl) for hx, cl in sf][:5]
    if pid == "C02":
        n_eval, sf = native_sweep(pid, seed, tier)
        mine = [(hx, [c for c in cl if TAG_RE.match(c) and pid in TAG_RE.match(c).group(1).split(",")]) for hx, cl in sf]
        mine = [(hx, cl) for hx, cl in mine if cl]
        sweep_info = {"what": "BOUNDED native sweep (real deku): Frame::from_bytes vs spec on every truncation 0..len-1 and extensions (len+1, 20, 32) of corpus frames + all 32 format codes x lengths 0..=32", "evaluations": n_eval, "failures": len(mine)}
        sweep_viol = mine[:5]

    # C20: only differences between the two configurations count
    if pid == "C20":
        to_replay = c20_filter(results, to_replay)

    native = native_replay([(o, hx) for (o, feat, mf, hx, has, r) in to_replay if has]) if to_replay else {}
    known = [k for k in load_known() if k.get("property") == pid and k.get("status") == "open"]
    exit_code = 0
    lines = []
    n_viol = 0
    for (o, feat, mine_fail, hx, has, r) in to_replay:
        nat = native.get(o["name"])
        clauses = [c["desc"] for c in mine_fail]
        payload = {"property": pid, "obligation_harness": o["name"], "features": feat,
                   "failed_obligations": [{"clause": c["desc"], "location": c["loc"], "id": c["id"]} for c in mine_fail],
                   "input_hex": hx, "kani_any_values": r.get("playback"),
                   "native_replay": nat, "verifier_output_tail": r["tail"],
                   "replay_cmd": "./check --replay <this file>",
                   "functions": o["functions"], "domain": o["domain"]}
        reproduced = bool(nat and (nat["fails"] or nat["panic"]))
        unknown = [c for c in clauses if not any(kf_match(k, o["name"], c) for k in known)]
        if has and nat is not None and not reproduced:
            # the verifier's counterexample does not fail on the real code: the deku model or a
            # stub diverges from the real dependency -> not a violation
            path = common.write_replay(pid, o["name"] + "-" + feat + "-divergence", payload)
            undecided.append("%s[%s]: counterexample does not replay natively (model divergence) %s" % (o["name"], feat, path))
            continue
        if not unknown:
            for c in clauses:
                k = [k for k in known if kf_match(k, o["name"], c)][0]
                lines.append("KNOWN-FINDING: property=%s %s [%s: %s] input=%s" % (pid, k.get("what", ""), o["name"], c, hx))
            continue
        path = common.write_replay(pid, o["name"] + "-" + feat, payload)
        n_viol += 1
        exit_code = 1
        suffix = "" if has else " no-failing-input-found"
        lines.append("VIOLATION property=%s replay=%s%s" % (pid, path, suffix))
        for c in unknown:
            log("  failed obligation: %s (%s)" % (c, o["name"]))

    known_all = known
    for hx, cl in sweep_viol:
        sweep_name = {"C19": "reader_any_native", "C05": "cpr_pos_full"}.get(pid, "frame_any_native")
        unknown = [c for c in cl if not any(kf_match(k, sweep_name, c) for k in known_all)]
        if not unknown:
            lines.append("KNOWN-FINDING: property=%s %s input=%s" % (pid, cl[0], hx))
            continue
        payload = {"property": pid, "obligation_harness": sweep_name, "features": "std", "input_hex": hx,
                   "failed_obligations": [{"clause": c} for c in cl], "note": "found by the bounded native sweep (real code, real deku)"}
        path = common.write_replay(pid, "sweep-" + hx[:40], payload)
        n_viol += 1
        exit_code = 1
        lines.append("VIOLATION property=%s replay=%s" % (pid, path))
    for o, bad, r in nb_viol:
        unknown = [c for c in bad if not any(kf_match(k, o["name"], c) for k in known_all)]
        if not unknown:
            lines.append("KNOWN-FINDING: property=%s %s [%s]" % (pid, bad[0], o["name"]))
            continue
        payload = {"property": pid, "obligation_harness": o["name"], "features": "std", "input_hex": "",
                   "failed_obligations": [{"clause": c} for c in bad], "native_replay": r, "note": "bounded native case (real code)"}
        path = common.write_replay(pid, o["name"] + "-native", payload)
        n_viol += 1
        exit_code = 1
        lines.append("VIOLATION property=%s replay=%s" % (pid, path))
    assumptions = standard_assumptions(pid, obls, per_harness)
    assumptions["assumed"] += monitor_notes
    level = "proof"
    extra_cov = {}
    if pid == "C15":
        # mostly bounded native cases: do not call it a proof
        level = "exploration"
        ncases = (nb_info or {}).get("cases", 0)
        extra_cov = {"evaluations": 6 * 6 + 2 + n_obl, "distinct_nontrivial": 6 + 2 + 1,
                     "rule": "native concrete cases on the real clock and map: 6 wall-clock phases x 6 clauses (0.5 s kept, 1.5 s removed, clock backwards removed, nothing else touched, re-appearance starts empty, T = 0) + 2 last-heard refresh cases; distinct = the 6 clause kinds + 2 refresh cases + the Kani counting obligation; a case is non-trivial when it sits on one side of the T boundary"}
    ev = {
        "property_id": pid, "tier": tier, "seed": seed, "level": level,
        "coverage": {
            "obligations": n_obl, "discharged": n_ok,
            "checker_cmd": "cargo kani -Z function-contracts -Z stubbing --harness verif_harness::<name> (Kani 0.68.0, CBMC 6.11.0, CaDiCaL) on a spliced scratch copy of /repo's working tree",
            "trusted_base": assumptions["trusted"],
            "harnesses": per_harness, "samples": samples,
            "solver_time_s": round(solver_time, 2),
            "bounded_parts": sorted({h["harness"] + ": " + h["bounded"] for h in per_harness if h["bounded"]}),
            "bounded_native_sweep": sweep_info, "bounded_native_cases": nb_info,
            "deku_model_monitor": monitor,
            "undecided": undecided, "known_findings_reported": [l for l in lines if l.startswith("KNOWN")],
            "exhaustive": not any(h["bounded"] for h in per_harness),
            **extra_cov,
        },
        "assumptions": assumptions["assumed"],
        "wall_s": round(time.time() - t0, 2), "violations": n_viol,
    }
    common.write_evidence(pid, ev)
    for l in lines:
        print(l)
    if exit_code == 0 and undecided:
        for u in undecided[:10]:
            log("UNDECIDED: " + u)
        print("UNDECIDED property=%s reason=%s" % (pid, undecided[0][:300]))
        return 2
    if exit_code == 0:
        print("OK property=%s tier=%s obligations=%d discharged=%d harnesses=%d wall=%.0fs" % (
            pid, tier, n_obl, n_ok, len(per_harness), time.time() - t0))
    return exit_code


def kf_match(k, harness, clause):
    if k.get("clause") and k["clause"] != clause:
        return False
    if k.get("harness") and not re.fullmatch(k["harness"], harness):
        return False
    return True


def c20_filter(results, to_replay):
    """C20: an obligation counts only if its outcome differs between std and alloc."""
    keep = []
    for (o, feat, mine_fail, hx, has, r) in to_replay:
        other = "alloc" if feat == "std" else "std"
        ro = results.get((o["name"], other))
        if ro is None:
            continue
        other_failed = {c["desc"] + "@" + c["loc"] for c in ro["checks"] if c["status"] == "FAILURE"}
        diff = [c for c in mine_fail if (c["desc"] + "@" + c["loc"]) not in other_failed]
        if diff:
            keep.append((o, feat, diff, hx, has, r))
    return keep


def standard_assumptions(pid, obls, per_harness):
    trusted = [
        "deku 0.18.1 runtime replaced by the bitvec-free model engine/deku_model (assumed contract of the dependency; real deku_derive macros kept; monitored by the differential validator `./check diffcheck`)",
        "Kani 0.68.0 / CBMC 6.11.0 / CaDiCaL and the rustc front end",
        "alloc::fmt::format stubbed to the empty string in harnesses that list it (error texts are not part of any property)",
        "std/alloc/core as modelled by Kani",
    ]
    assumed = [
        "machine arithmetic is bit-precise (no mathematical integers are involved on the Kani side)",
        "inputs outside a contract's vrequire! preconditions are not covered: " + "; ".join(sorted({h["domain"] for h in per_harness if h["domain"]}))[:600],
    ]
    return {"trusted": trusted, "assumed": assumed}


def replay_file(path):
    with open(path) as f:
        p = json.load(f)
    name = p["obligation_harness"]
    o = [x for x in registry.OBL if x["name"] == name]
    if not o:
        print("unknown obligation harness", name)
        return 2
    nat = native_replay([(o[0], p.get("input_hex", ""))])
    r = nat[name]
    print(r["text"])
    if r["fails"] or r["panic"]:
        print("REPRODUCED on the real code (real deku 0.18.1): %s" % (r["panic"] or r["fails"]))
        return 1
    print("not reproduced")
    return 0
