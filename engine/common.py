#!/usr/bin/env python3
"""Shared plumbing for the /verif checks: scratch copies of /repo crates, splicing of contract
overlays and harness modules, tool drivers (Kani, Verus, native replay), evidence writer.

Nothing here decides a property; the deciding step is always the verifier (Kani/CBMC or Verus/z3)
accepting every obligation generated from /repo's *current working tree*.
"""
import hashlib
import json
import os
import re
import shutil
import subprocess
import sys
import tempfile
import time

VERIF = os.path.dirname(os.path.dirname(os.path.abspath(__file__)))
REPO = os.environ.get("VERIF_REPO", "/repo")
CACHE = os.path.join(VERIF, ".cache")
KANI_SEED = os.path.join(CACHE, "kani-seed")      # compiled dependencies of the framework only
NATIVE_SEED = os.path.join(CACHE, "native-seed")
# runs against a scratch tree (selftest, VERIF_REPO set) must not overwrite the evidence of /repo
_SCRATCH_RUN = os.environ.get("VERIF_REPO", "/repo") != "/repo"
EVIDENCE = os.path.join(CACHE, "scratch-evidence") if _SCRATCH_RUN else os.path.join(VERIF, "evidence")
REPLAYS = os.path.join(VERIF, "replays")
DEKU_MODEL = os.path.join(VERIF, "engine", "deku_model")
TRACING_SHIM = os.path.join(VERIF, "engine", "shims", "tracing")
SPEC_DIR = os.path.join(VERIF, "contracts", "spec")
HARNESS_DIR = os.path.join(VERIF, "contracts", "harness")

OFFLINE_ENV = {"CARGO_NET_OFFLINE": "true", "GOPROXY": "off", "PIP_NO_INDEX": "1"}


class Undecided(Exception):
    """Lost anchor, tool crash, timeout, unsupported construct: exit 2, never an alarm."""


def log(*a):
    print(*a, file=sys.stderr, flush=True)


def sh(cmd, cwd=None, env=None, timeout=None, check=False):
    e = dict(os.environ)
    e.update(OFFLINE_ENV)
    if env:
        e.update(env)
    t0 = time.time()
    try:
        p = subprocess.run(cmd, cwd=cwd, env=e, timeout=timeout, stdout=subprocess.PIPE,
                           stderr=subprocess.STDOUT, text=True, errors="replace")
        out, rc = p.stdout, p.returncode
    except subprocess.TimeoutExpired as ex:
        out = (ex.stdout or "")
        if isinstance(out, bytes):
            out = out.decode(errors="replace")
        out += "\n[[timeout after %ss]]" % timeout
        rc = 124
    dt = time.time() - t0
    if check and rc != 0:
        raise Undecided("command failed (%s): %s\n%s" % (rc, " ".join(cmd), out[-4000:]))
    return rc, out, dt


# --------------------------------------------------------------------------------------------
# scratch copies
# --------------------------------------------------------------------------------------------

LIB_CARGO = """[package]
name = "adsb_deku"
version = "0.7.1"
edition = "2021"

[features]
default = ["std"]
std = ["deku/std", "alloc"]
alloc = ["deku/alloc"]

[dependencies]
deku = { path = "%(deku)s", default-features = false, features = ["bits"] }
serde = { version = "1.0", features = ["derive"], optional = true }
libm = "0.2.8"

[lints.rust]
unexpected_cfgs = { level = "allow" }
"""

LIB_CARGO_REAL = """[package]
name = "adsb_deku"
version = "0.7.1"
edition = "2021"

[features]
default = ["std"]
std = ["deku/std", "alloc"]
alloc = ["deku/alloc"]

[dependencies]
deku = { version = "0.18.1", default-features = false, features = ["bits"] }
serde = { version = "1.0", features = ["derive"], optional = true }
libm = "0.2.8"

[lints.rust]
unexpected_cfgs = { level = "allow" }
"""

COMMON_CARGO = """[package]
name = "rsadsb_common"
version = "0.7.0"
edition = "2021"

[features]
default = ["std"]
std = ["adsb_deku/std", "alloc"]
alloc = ["adsb_deku/alloc"]

[dependencies]
adsb_deku = { path = "../libadsb_deku", default-features = false }
libm = "0.2.8"
tracing = { path = "%(tracing)s" }

[lints.rust]
unexpected_cfgs = { level = "allow" }
"""

WORKSPACE_CARGO = """[workspace]
members = [%(members)s]
resolver = "2"

[profile.dev]
overflow-checks = true
[profile.release]
overflow-checks = true
"""


def file_sha(path):
    h = hashlib.sha256()
    with open(path, "rb") as f:
        h.update(f.read())
    return h.hexdigest()


def tree_sha(paths):
    h = hashlib.sha256()
    for p in sorted(paths):
        h.update(p.encode())
        with open(p, "rb") as f:
            h.update(f.read())
    return h.hexdigest()


class Scratch:
    """A throw-away copy of the two library crates of /repo's working tree.

    kind = "kani": deku runtime replaced by the bitvec-free model (assumed contract of the
    dependency), tracing by a no-op shim; kind = "native": the real deku 0.18.1.
    Every spliced file is self-checked: removing exactly the inserted lines gives back the
    /repo file byte for byte."""

    def __init__(self, kind="kani", with_common=True):
        self.kind = kind
        self.dir = tempfile.mkdtemp(prefix="adsbverif-")
        self.target = os.path.join(self.dir, "target")
        seed = KANI_SEED if kind == "kani" else NATIVE_SEED
        if os.path.isdir(seed):
            subprocess.run(["cp", "-a", seed, self.target], check=False)
        self.with_common = with_common
        self.originals = {}
        for crate in ["libadsb_deku"] + (["rsadsb_common"] if with_common else []):
            src = os.path.join(REPO, crate)
            dst = os.path.join(self.dir, crate)
            os.makedirs(dst)
            shutil.copytree(os.path.join(src, "src"), os.path.join(dst, "src"))
            if os.path.exists(os.path.join(src, "README.md")):
                shutil.copy(os.path.join(src, "README.md"), dst)
        shutil.copy(os.path.join(REPO, "README.md"), self.dir)
        deku = DEKU_MODEL
        with open(os.path.join(self.dir, "libadsb_deku", "Cargo.toml"), "w") as f:
            f.write((LIB_CARGO if kind == "kani" else LIB_CARGO_REAL) % {"deku": deku})
        members = ['"libadsb_deku"']
        if with_common:
            with open(os.path.join(self.dir, "rsadsb_common", "Cargo.toml"), "w") as f:
                f.write(COMMON_CARGO % {"tracing": TRACING_SHIM})
            members.append('"rsadsb_common"')
        with open(os.path.join(self.dir, "Cargo.toml"), "w") as f:
            f.write(WORKSPACE_CARGO % {"members": ", ".join(members)})
        lock = os.path.join(REPO, "Cargo.lock")
        if os.path.exists(lock):
            shutil.copy(lock, self.dir)
        os.makedirs(os.path.join(self.dir, ".cargo"))
        with open(os.path.join(self.dir, ".cargo", "config.toml"), "w") as f:
            f.write("[net]\noffline = true\n")

    # -- splicing ---------------------------------------------------------------------------
    def path(self, rel):
        return os.path.join(self.dir, rel)

    def read(self, rel):
        with open(self.path(rel)) as f:
            return f.read()

    def _remember(self, rel):
        if rel not in self.originals:
            self.originals[rel] = self.read(rel)

    def insert_before_fn(self, rel, fn_regex, lines, nth=0):
        """Insert attribute lines immediately above the line matching fn_regex (nth match)."""
        self._remember(rel)
        src = self.read(rel).split("\n")
        hits = [i for i, l in enumerate(src) if re.search(fn_regex, l)]
        if len(hits) <= nth:
            raise Undecided("lost anchor %s in %s" % (fn_regex, rel))
        i = hits[nth]
        # go above existing attributes / doc comments directly attached? keep simple: directly above fn
        indent = re.match(r"\s*", src[i]).group(0)
        new = [indent + l + "  //@verif" for l in lines]
        src[i:i] = new
        with open(self.path(rel), "w") as f:
            f.write("\n".join(src))

    def append(self, rel, text):
        self._remember(rel)
        body = "".join(l + "  //@verif\n" if l.strip() else "//@verif\n" for l in text.split("\n"))
        with open(self.path(rel), "a") as f:
            f.write(body)

    def add_file(self, rel, text):
        with open(self.path(rel), "w") as f:
            f.write(text)

    def self_check(self):
        for rel, orig in self.originals.items():
            cur = self.read(rel).split("\n")
            kept = [l for l in cur if not l.endswith("//@verif")]
            if "\n".join(kept) != orig:
                raise Undecided("splice self-check failed for %s" % rel)
            with open(os.path.join(REPO, rel)) as f:
                if f.read() != orig:
                    raise Undecided("/repo changed during the run: %s" % rel)

    def cleanup(self):
        # the scratch copy and all of its build output live in one temp dir
        shutil.rmtree(self.dir, ignore_errors=True)

    def save_seed(self):
        """setup: keep the compiled *dependencies* (deku model, deku_derive, syn, libm, shim) and
        drop everything built from the copied /repo crates."""
        seed = KANI_SEED if self.kind == "kani" else NATIVE_SEED
        for root, dirs, files in os.walk(self.target):
            for d in list(dirs):
                if re.match(r"(lib)?(adsb_deku|rsadsb_common|verif_replay)(-[0-9a-z]+)?$", d):
                    shutil.rmtree(os.path.join(root, d), ignore_errors=True)
                    dirs.remove(d)
            for n in files:
                if re.match(r"(lib)?(adsb_deku|rsadsb_common|verif_replay)[-.]", n) or n == "verif_replay":
                    try:
                        os.remove(os.path.join(root, n))
                    except OSError:
                        pass
        os.makedirs(CACHE, exist_ok=True)
        shutil.rmtree(seed, ignore_errors=True)
        shutil.move(self.target, seed)

    def __enter__(self):
        return self

    def __exit__(self, *a):
        self.cleanup()


# --------------------------------------------------------------------------------------------
# Kani driver
# --------------------------------------------------------------------------------------------

RES_RE = re.compile(r"^VERIFICATION:- (SUCCESSFUL|FAILED)", re.M)


def parse_kani(out):
    """Split the cargo-kani output per harness.  Returns dict name -> info."""
    res = {}
    parts = re.split(r"^Checking harness ([^\n]+?)\.\.\.\s*$", out, flags=re.M)
    # parts[0] preamble, then (name, body)*
    for k in range(1, len(parts), 2):
        name = parts[k].strip()
        body = parts[k + 1]
        m = RES_RE.search(body)
        status = m.group(1) if m else "UNDECIDED"
        if re.search(r"CBMC failed|out of memory|CBMC timed out|timed out", body):
            status = "UNDECIDED"
        checks = re.search(r"\*\* (\d+) of (\d+) failed(?: \((\d+) unreachable\))?", body)
        nfail = int(checks.group(1)) if checks else None
        total = int(checks.group(2)) if checks else None
        covers = re.search(r"\*\* (\d+) of (\d+) cover properties satisfied", body)
        failed = []
        for fm in re.finditer(r"^Failed Checks: (.*)\n(?:\s*File: \"([^\"]*)\", line (\d+), in (\S+))?", body, re.M):
            failed.append({"desc": fm.group(1).strip(), "file": fm.group(2), "line": fm.group(3),
                           "fn": fm.group(4)})
        tm = re.search(r"Verification Time: ([0-9.]+)s", body)
        unsat_cover = re.findall(r"Status: (UNSATISFIABLE|UNREACHABLE)\n\s*- Description: \"(cover[^\"]*)\"", body)
        if status == "FAILED" and not failed:
            status = "UNDECIDED"
        name = name.split("::")[-1]
        res[name] = {
            "status": status, "failed_checks": failed, "n_failed": nfail, "n_checks": total,
            "covers_sat": int(covers.group(1)) if covers else None,
            "covers_total": int(covers.group(2)) if covers else None,
            "time_s": float(tm.group(1)) if tm else None,
            "body_tail": body[-3000:],
            "playback": extract_playback(body),
            "stubs": re.findall(r"- Stub: (\S+)", body),
        }
    return res


def extract_playback(body):
    """Concrete playback prints a unit test whose concrete_vals vector lists the bytes of every
    kani::any() in call order."""
    m = re.search(r"let concrete_vals: Vec<Vec<u8>> = vec!\[(.*?)\];", body, re.S)
    if not m:
        return None
    vals = []
    for vm in re.finditer(r"vec!\[([0-9,\s]*)\]", m.group(1)):
        s = vm.group(1).strip()
        vals.append([int(x) for x in s.split(",") if x.strip()] if s else [])
    return vals


def run_kani(scratch, package, harnesses, jobs=8, timeout=1800, features=None, extra=None,
             unwind=None, mem_gb=24, harness_timeout=None):
    """Run the listed harnesses with contracts + stubbing enabled; per-harness result files."""
    outdir = os.path.join(scratch.dir, "result_output_dir")
    shutil.rmtree(outdir, ignore_errors=True)
    cmd = ["cargo", "kani", "-p", package, "-Z", "function-contracts", "-Z", "stubbing",
           "-Z", "unstable-options", "--output-format", "terse", "-j", str(jobs), "--exact",
           "--output-into-files"]
    if harness_timeout:
        cmd += ["--harness-timeout", "%ds" % harness_timeout]
    if features is not None:
        cmd += ["--no-default-features"]
        if features:
            cmd += ["--features", features]
    if unwind:
        cmd += ["--default-unwind", str(unwind)]
    for h in harnesses:
        cmd += ["--harness", h if "::" in h else "verif_harness::" + h]
    if extra:
        cmd += extra
    cmd = ["bash", "-c", "ulimit -v %d; exec \"$@\"" % (mem_gb * 1024 * 1024), "--"] + cmd
    rc, out, dt = sh(cmd, cwd=scratch.dir, env={"CARGO_TARGET_DIR": scratch.target}, timeout=timeout)
    res = {}
    if os.path.isdir(outdir):
        for fn in os.listdir(outdir):
            with open(os.path.join(outdir, fn), errors="replace") as f:
                body = f.read()
            r = parse_kani("Checking harness %s...\n%s" % (fn, body))
            res.update(r)
    for h in harnesses:
        h = h.split("::")[-1]
        if h not in res:
            res[h] = {"status": "UNDECIDED", "failed_checks": [], "n_failed": None, "n_checks": None,
                      "covers_sat": None, "covers_total": None, "time_s": None,
                      "body_tail": out[-3000:], "playback": None, "stubs": []}
    return rc, out, dt, res


def run_kani_playback(scratch, package, harness, timeout=1800, features=None, mem_gb=24):
    """Re-run one failing harness with concrete playback to obtain the counterexample values."""
    cmd = ["cargo", "kani", "-p", package, "-Z", "function-contracts", "-Z", "stubbing",
           "-Z", "concrete-playback", "--concrete-playback=print", "--exact",
           "--output-format", "terse", "--harness", "verif_harness::" + harness]
    if features is not None:
        cmd += ["--no-default-features"]
        if features:
            cmd += ["--features", features]
    cmd = ["bash", "-c", "ulimit -v %d; exec \"$@\"" % (mem_gb * 1024 * 1024), "--"] + cmd
    rc, out, dt = sh(cmd, cwd=scratch.dir, env={"CARGO_TARGET_DIR": scratch.target}, timeout=timeout)
    return extract_playback(out), out


# --------------------------------------------------------------------------------------------
# evidence / replay files
# --------------------------------------------------------------------------------------------

def write_evidence(pid, ev):
    os.makedirs(EVIDENCE, exist_ok=True)
    path = os.path.join(EVIDENCE, pid + ".json")
    tmp = path + ".tmp"
    with open(tmp, "w") as f:
        json.dump(ev, f, indent=1, sort_keys=True)
    os.replace(tmp, path)
    return path


def write_replay(pid, name, payload):
    d = os.path.join(REPLAYS, pid)
    os.makedirs(d, exist_ok=True)
    safe = re.sub(r"[^A-Za-z0-9_.-]", "_", name)[:120]
    path = os.path.join(d, safe + ".json")
    with open(path, "w") as f:
        json.dump(payload, f, indent=1, sort_keys=True)
    return path


def load_known_findings():
    """known_findings.txt: `open: property=Cxx harness=<regex> clause=<text> :: what` lines are
    reported as KNOWN-FINDING; `fixed:` lines are documentation only and suppress nothing."""
    path = os.path.join(VERIF, "known_findings.txt")
    out = []
    if os.path.exists(path):
        for l in open(path):
            l = l.strip()
            if not l or l.startswith("#"):
                continue
            m = re.match(r"open: property=(\S+) harness=(\S+) clause=(.*?) :: (.*)$", l)
            if m:
                out.append({"status": "open", "property": m.group(1), "harness": m.group(2),
                            "clause": m.group(3).strip(), "what": m.group(4)})
            elif l.startswith("fixed:"):
                out.append({"status": "fixed", "line": l})
    return out


def scan_tokens(text):
    toks = ["kani::assume", "kani::stub", "assume(", "admit(", "external_body", "assume_specification",
            "unsafe "]
    return {t: text.count(t) for t in toks if text.count(t)}
