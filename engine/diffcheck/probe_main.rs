// Differential probe: decodes every hex line of stdin with Frame::from_bytes and with
// Frame::from_reader over a logging reader; prints the Debug text / error class and the
// read/seek call sequence.  Built twice: against the real deku 0.18.1 and against the model.
use deku::no_std_io::{Read, Seek, SeekFrom};
use std::io::BufRead;

struct LogReader {
    data: Vec<u8>,
    pos: usize,
    log: std::rc::Rc<std::cell::RefCell<String>>,
}
impl Read for LogReader {
    fn read(&mut self, buf: &mut [u8]) -> deku::no_std_io::Result<usize> {
        let n = buf.len().min(self.data.len() - self.pos);
        buf[..n].copy_from_slice(&self.data[self.pos..self.pos + n]);
        self.pos += n;
        self.log.borrow_mut().push_str(&format!("r{}>{} ", buf.len(), n));
        Ok(n)
    }
}
impl Seek for LogReader {
    fn seek(&mut self, pos: SeekFrom) -> deku::no_std_io::Result<u64> {
        match pos {
            SeekFrom::Current(d) => {
                self.pos = (self.pos as i64 + d) as usize;
                self.log.borrow_mut().push_str(&format!("s{} ", d));
            }
            SeekFrom::Start(p) => {
                self.pos = p as usize;
                self.log.borrow_mut().push_str(&format!("S{} ", p));
            }
            SeekFrom::End(d) => {
                self.pos = (self.data.len() as i64 + d) as usize;
                self.log.borrow_mut().push_str(&format!("E{} ", d));
            }
        }
        Ok(self.pos as u64)
    }
}

fn class(e: &deku::DekuError) -> String {
    let s = format!("{:?}", e);
    s.split(|c| c == '(' || c == ' ').next().unwrap_or("?").to_string()
}

fn main() {
    let stdin = std::io::stdin();
    for line in stdin.lock().lines() {
        let line = line.unwrap();
        let hex = line.trim();
        let bytes: Vec<u8> = (0..hex.len() / 2).map(|i| u8::from_str_radix(&hex[2 * i..2 * i + 2], 16).unwrap()).collect();
        let r = std::panic::catch_unwind(|| match adsb_deku::Frame::from_bytes(&bytes) {
            Ok(f) => format!("OK {:?}", f),
            Err(e) => format!("ERR {}", class(&e)),
        });
        let a = r.unwrap_or_else(|_| "PANIC".to_string());
        let log = std::rc::Rc::new(std::cell::RefCell::new(String::new()));
        let lr = LogReader { data: bytes.clone(), pos: 0, log: log.clone() };
        let r2 = std::panic::catch_unwind(std::panic::AssertUnwindSafe(|| match adsb_deku::Frame::from_reader(lr) {
            Ok(f) => format!("OK {:?}", f),
            Err(e) => format!("ERR {}", class(&e)),
        }));
        let b = r2.unwrap_or_else(|_| "PANIC".to_string());
        println!("{} | {} | same_as_bytes={} | {}", hex, a, a == b, log.borrow());
    }
}
