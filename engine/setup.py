"""setup_cmd: build the compiled-dependency seeds (offline) so that checks do not recompile
syn / deku_derive / the deku model on every run.  Nothing from /repo stays in the seeds."""
import os
import shutil

import build
import common
import registry
from common import log


def main():
    os.makedirs(common.CACHE, exist_ok=True)
    shutil.rmtree(common.KANI_SEED, ignore_errors=True)
    shutil.rmtree(common.NATIVE_SEED, ignore_errors=True)
    obls = [o for o in registry.OBL if o["name"] in ("leaf_sign_value", "trk_seed")]
    sc = build.make_scratch(obls, "kani", with_common=True)
    try:
        for feat in (None, "alloc"):
            for crate, h in (("adsb_deku", "leaf_sign_value"),):
                cmd = ["cargo", "kani", "-p", crate, "-Z", "function-contracts", "-Z", "stubbing",
                       "--exact", "--harness", "verif_harness::" + h]
                if feat:
                    cmd += ["--no-default-features", "--features", feat]
                rc, out, dt = common.sh(cmd, cwd=sc.dir, env={"CARGO_TARGET_DIR": sc.target}, timeout=1800)
                log("setup: kani %s %s rc=%s %.0fs" % (crate, feat or "std", rc, dt))
                if rc != 0:
                    log(out[-3000:])
                    return 1
            # compile rsadsb_common too (tracing shim etc.)
            cmd = ["cargo", "kani", "-p", "rsadsb_common", "--only-codegen"]
            if feat:
                cmd += ["--no-default-features", "--features", feat]
            rc, out, dt = common.sh(cmd, cwd=sc.dir, env={"CARGO_TARGET_DIR": sc.target}, timeout=1800)
            log("setup: kani rsadsb_common %s rc=%s %.0fs" % (feat or "std", rc, dt))
        sc.save_seed()
    finally:
        sc.cleanup()
    sc = build.make_scratch(obls, "native", with_common=True)
    try:
        build.build_native(sc)
        sc.save_seed()
    finally:
        sc.cleanup()
    log("setup: done")
    return 0
