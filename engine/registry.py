"""Registry of obligations (one Kani harness each).  The harness name, the obligation function of
contracts/harness/*.rs it calls, its concrete parameters, the properties it serves and the tier.

`complete` = the harness is loop-free in its symbolic data or unwound with unwinding assertions
on, over the full domain of its symbolic inputs: a proof for that domain, not a bounded check.
`bounded` (a string) = what the bound is; never counted as proved."""

OBL = []


def add(name, crate, fn, args="", props=(), unwind=None, tier="quick", stubs=("fmt",),
        bounded=None, domain="", features=("std",), timeout=900, functions=(), kani_flags=()):
    OBL.append(dict(name=name, crate=crate, fn=fn, args=args, props=list(props), unwind=unwind,
                    tier=tier, stubs=list(stubs), bounded=bounded, domain=domain,
                    features=list(features), timeout=timeout, functions=list(functions),
                    kani_flags=list(kani_flags)))


L = "crate::verif_obl_leaf::"

# ---- E-K leaf contracts ---------------------------------------------------------------------
add("leaf_decode_id13", "adsb_deku", L + "obl_decode_id13", props=["C09", "C06", "C01", "C20"], stubs=[],
    domain="all 2^32 inputs", functions=["mode_ac::decode_id13_field"], features=("std", "alloc"))
add("leaf_mode_a_to_mode_c", "adsb_deku", L + "obl_mode_a_to_mode_c", props=["C06", "C01", "C20"], stubs=[],
    domain="all 2^32 raw inputs; all 8192 codes through the de-interleaver",
    functions=["mode_ac::mode_a_to_mode_c", "mode_ac::decode_id13_field"], features=("std", "alloc"))
add("leaf_ac13_read", "adsb_deku", L + "obl_ac13_read", props=["C06", "C01", "C20"], unwind=20,
    domain="all 2^16 two-byte buffers = all 8192 codes x 8 surrounding-bit patterns",
    functions=["AC13Field::read"], features=("std", "alloc"))
add("leaf_ac12_read", "adsb_deku", L + "obl_ac12_read", props=["C06", "C01", "C20"], unwind=20,
    domain="all 2^16 two-byte buffers = all 4096 codes x 16 surrounding-bit patterns",
    functions=["Altitude::read"], features=("std", "alloc"))
add("leaf_identity_read", "adsb_deku", L + "obl_identity_read", props=["C09", "C01", "C20"], unwind=20,
    domain="all 2^16 two-byte buffers = all 8192 codes x 8", functions=["IdentityCode::read"],
    features=("std", "alloc"))
FILLER = 0x420c41461c8  # "ABCDEFGH" = codes 1..8
for _m, _nm in [(0x01, "m01"), (0x80, "m80"), (0x03, "m03"), (0x0f, "m0f"), (0xff, "mff")]:
    add("leaf_ident_read_" + _nm, "adsb_deku", L + "obl_ident_read", args="0x%02x, 0x%x" % (_m, FILLER), props=["C08", "C01", "C20"], unwind=10,
        domain="mask", functions=["aircraft_identification_read"], features=("std", "alloc"), timeout=1800)
add("leaf_char_lookup", "adsb_deku", L + "obl_char_lookup", props=["C08"], stubs=[],
    domain="all 64 character codes", functions=["CHAR_LOOKUP"])
add("leaf_sign_value", "adsb_deku", L + "obl_sign_value", props=["C07"], stubs=[],
    domain="both sign values", functions=["Sign::value"])

F = "crate::verif_obl_frame::"

# ---- E-F payload level: ME / MB readers, first payload byte concrete, rest symbolic ---------
FAST = ["-Z", "unstable-options", "--no-assertion-reach-checks", "--no-memory-safety-checks"]


def me_props(_tc):
    return (["C10", "C04", "C01", "C02", "C20"] + {19: ["C07"], 28: ["C09"]}.get(_tc, []) + (["C08"] if 1 <= _tc <= 4 else [])
            + (["C06"] if (9 <= _tc <= 18 or 20 <= _tc <= 22) else []))


# quick: every type code; all 8 values of ME bits 6-8 where they select a variant or an enum
# (19 subtype, 28 subtype, 29 subtype/SIL, 31 subtype), two corner values elsewhere.
# thorough: all 256 values of the first payload byte.
for _tc in range(32):
    _full = _tc in (19, 28, 29, 31)
    _qmask = 0xff if _full else 0x21 if _tc not in (11, 5) else 0xa5
    add("me_tc%02d" % _tc, "adsb_deku", F + "obl_me", args="%d, 0x%02x" % (_tc, _qmask), props=me_props(_tc),
        unwind=10, domain="ME type code %d x ME bits 6-8 in mask 0x%02x x all 2^48 remaining ME bits x 2^24 trailer" % (_tc, _qmask),
        functions=["adsb::ME::from_reader_with_ctx (real derive expansion)"], timeout=1500, kani_flags=FAST,
        features=("std", "alloc") if _tc in (0, 4, 11, 19, 28, 29, 31) else ("std",))
    if _qmask != 0xff:
        add("me_tc%02d_rest" % _tc, "adsb_deku", F + "obl_me", args="%d, 0x%02x" % (_tc, 0xff & ~_qmask), props=me_props(_tc),
            unwind=10, tier="thorough", domain="ME type code %d x remaining values of ME bits 6-8 (mask 0x%02x) x all other bits" % (_tc, 0xff & ~_qmask),
            functions=["adsb::ME::from_reader_with_ctx (real derive expansion)"], timeout=2400, kani_flags=FAST)


def select(prop, tier):
    out = []
    for o in OBL:
        if prop not in o["props"]:
            continue
        if tier == "quick" and o["tier"] != "quick":
            continue
        out.append(o)
    return out
