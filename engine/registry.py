"""Registry of obligations (one Kani harness each).  The harness name, the obligation function of
contracts/harness/*.rs it calls, its concrete parameters, the properties it serves and the tier.

`complete` = the harness is loop-free in its symbolic data or unwound with unwinding assertions
on, over the full domain of its symbolic inputs: a proof for that domain, not a bounded check.
`bounded` (a string) = what the bound is; never counted as proved."""

OBL = []

# obligations generated for both build configurations (C20); kept small so that the quick check of
# C20 stays within minutes - the thorough tier adds every obligation listed with two feature sets
C20_QUICK_DUAL = {"leaf_decode_id13", "leaf_mode_a_to_mode_c", "leaf_ac13_read", "leaf_ac12_read", "leaf_identity_read",
                  "leaf_ident_read_mff", "cpr_nl"}


def add(name, crate, fn, args="", props=(), unwind=None, tier="quick", stubs=("fmt",),
        bounded=None, domain="", features=("std",), timeout=900, functions=(), kani_flags=()):
    # measured: with the alloc-only build (no_std_io2 reader) every frame-level / payload-level harness
    # times out (df00: 16 s with std, > 900 s with alloc); only reader-slice and pure-function
    # contracts are tractable in both builds, so only those are generated twice (C20)
    if len(features) > 1 and not (name.startswith("leaf_") or name.startswith("cpr_") or name.startswith("dfr_") or name.startswith("rdd_")):
        features = (features[0],)
    if crate == "adsb_deku" and not kani_flags:
        kani_flags = ["-Z", "unstable-options", "--no-assertion-reach-checks", "--no-memory-safety-checks"]
    OBL.append(dict(name=name, crate=crate, fn=fn, args=args, props=list(props), unwind=unwind, dual_quick=(name in C20_QUICK_DUAL),
                    tier=tier, stubs=list(stubs), bounded=bounded, domain=domain,
                    features=list(features), timeout=timeout, functions=list(functions),
                    kani_flags=list(kani_flags)))


L = "crate::verif_obl_leaf::"

# ---- E-K leaf contracts ---------------------------------------------------------------------
add("leaf_decode_id13", "adsb_deku", L + "obl_decode_id13", props=["C09", "C06", "C01", "C20"], stubs=[],
    domain="all 2^32 inputs", functions=["mode_ac::decode_id13_field"], features=("std", "alloc"))
add("leaf_mode_a_to_mode_c", "adsb_deku", L + "obl_mode_a_to_mode_c", props=["C06", "C01", "C20"], stubs=[],
    domain="all 2^32 raw inputs; all 8192 codes through the de-interleaver",
    functions=["mode_ac::mode_a_to_mode_c", "mode_ac::decode_id13_field"], features=("std", "alloc"))
add("leaf_ac13_read", "adsb_deku", L + "obl_ac13_read", props=["C06", "C01", "C20"], unwind=20,
    domain="all 2^16 two-byte buffers = all 8192 codes x 8 surrounding-bit patterns",
    functions=["AC13Field::read"], features=("std", "alloc"))
add("leaf_ac12_read", "adsb_deku", L + "obl_ac12_read", props=["C06", "C01", "C20"], unwind=20,
    domain="all 2^16 two-byte buffers = all 4096 codes x 16 surrounding-bit patterns",
    functions=["Altitude::read"], features=("std", "alloc"))
add("leaf_identity_read", "adsb_deku", L + "obl_identity_read", props=["C09", "C01", "C20"], unwind=20,
    domain="all 2^16 two-byte buffers = all 8192 codes x 8", functions=["IdentityCode::read"],
    features=("std", "alloc"))
FILLER = 0x420c41461c8  # "ABCDEFGH" = codes 1..8
for _m, _nm in [(0xff, "mff")]:
    add("leaf_ident_read_" + _nm, "adsb_deku", L + "obl_ident_read", args="0x%02x, 0x%x" % (_m, FILLER), props=["C08", "C01", "C20"], unwind=10,
        domain="all 2^48 six-byte buffers = all 64^8 character strings (length and alignment clauses; contents natively)", functions=["aircraft_identification_read"], features=("std", "alloc"), timeout=900)
add("leaf_char_lookup", "adsb_deku", L + "obl_char_lookup", props=["C08"], stubs=[],
    domain="all 64 character codes", functions=["CHAR_LOOKUP"])
add("leaf_sign_value", "adsb_deku", L + "obl_sign_value", props=["C07"], stubs=[],
    domain="both sign values", functions=["Sign::value"])

F = "crate::verif_obl_frame::"

# ---- E-F payload level: ME / MB readers, first payload byte concrete, rest symbolic ---------
FAST = ["-Z", "unstable-options", "--no-assertion-reach-checks", "--no-memory-safety-checks"]


def me_props(_tc):
    return (["C10", "C04"] + (["C02"] if _tc == 31 else []) + {19: ["C07"], 28: ["C09"]}.get(_tc, []) + (["C08"] if 1 <= _tc <= 4 else [])
            + (["C06"] if (9 <= _tc <= 18 or 20 <= _tc <= 22) else []))


# quick: every type code; all 8 values of ME bits 6-8 where they select a variant or an enum
# (19 subtype, 28 subtype, 29 subtype/SIL, 31 subtype), two corner values elsewhere.
# thorough: all 256 values of the first payload byte.
# quick: one harness per (type code, value of ME bits 6-8) so that they run side by side; the
# values cover every variant / enum selected by those bits.  thorough: all remaining values.
QVALS = {0: (0,), 4: (0, 5), 5: (0,), 11: (0, 5), 19: (0, 1, 3, 5), 20: (0,), 24: (0,), 28: (0, 1, 2, 5), 29: (0, 2, 3), 31: (0, 1, 2, 7)}
for _tc in range(32):
    _q = QVALS.get(_tc, ())
    _qmask = 0
    for _v in _q:
        _qmask |= 1 << _v
        add("me_tc%02d_%d" % (_tc, _v), "adsb_deku", F + "obl_me", args="%d, 0x%02x" % (_tc, 1 << _v), props=me_props(_tc),
            unwind=10, domain="ME type code %d, ME bits 6-8 = %d x all 2^48 remaining ME bits x 2^24 trailer" % (_tc, _v),
            functions=["adsb::ME::from_reader_with_ctx (real derive expansion)"], timeout=700, kani_flags=FAST)
    if _qmask != 0xff:
        add("me_tc%02d_rest" % _tc, "adsb_deku", F + "obl_me", args="%d, 0x%02x" % (_tc, 0xff & ~_qmask), props=me_props(_tc),
            unwind=10, tier="thorough", domain="ME type code %d x remaining values of ME bits 6-8 (mask 0x%02x) x all other bits" % (_tc, 0xff & ~_qmask),
            functions=["adsb::ME::from_reader_with_ctx (real derive expansion)"], timeout=3000, kani_flags=FAST)

# ---- E-F payload level: MB (Comm-B) reader, all 256 first bytes --------------------------------
for _v in (0x00, 0x10, 0x20, 0x30, 0xff):
    add("bds_v%02x" % _v, "adsb_deku", F + "obl_bds", args="0x%02x, 0x%02x" % (_v, _v),
        props=["C10", "C04"] + (["C08"] if _v == 0x20 else []), unwind=10,
        domain="MB first byte 0x%02x x all 2^48 remaining MB bits x 2^24 trailer" % _v,
        functions=["bds::BDS::from_reader_with_ctx (real derive expansion)"], timeout=900, kani_flags=FAST,
        features=("std", "alloc") if _v in (0x10,) else ("std",))
for _g in range(16):
    _lo, _hi = _g * 16, _g * 16 + 15
    add("bds_%02x_%02x" % (_lo, _hi), "adsb_deku", F + "obl_bds", args="0x%02x, 0x%02x" % (_lo, _hi),
        props=["C10", "C04"] + (["C08"] if _lo == 0x20 else []), unwind=20, tier="thorough",
        domain="MB first byte 0x%02x..=0x%02x x all 2^48 remaining MB bits x 2^24 trailer" % (_lo, _hi),
        functions=["bds::BDS::from_reader_with_ctx (real derive expansion)"], timeout=3000, kani_flags=FAST)

# ---- E-F frame level ---------------------------------------------------------------------------
DF_FN = ["DF::from_reader_with_ctx (real derive expansion)", "AC13Field::read", "IdentityCode::read", "Capability reader",
         "adsb::ME / bds::BDS readers"]
FC_FN = ["Frame::from_bytes", "Frame::from_reader", "Frame::read_crc", "ReaderCrc::read/seek", "crc::modes_checksum"]


def dfh(name, b0, b4=-1, props=(), tier="quick", timeout=900, feats=("std",)):
    add(name, "adsb_deku", F + "obl_df", args="0x%02x, %d" % (b0, b4), props=list(props),
        unwind=16, tier=tier, timeout=timeout, kani_flags=FAST, features=feats, functions=DF_FN,
        domain="complete frames with byte 0 = 0x%02x%s, every other bit symbolic" % (b0, (", byte 4 = 0x%02x" % b4) if b4 >= 0 else ""))


def fch(name, length, b0, b4=-1, props=("C02", "C03", "C01", "C20"), tier="quick", timeout=900, feats=("std",)):
    add(name, "adsb_deku", F + "obl_frame_crc", args="%d, 0x%02x, %d" % (length, b0, b4), props=list(props),
        unwind=34, tier=tier, timeout=timeout, kani_flags=FAST, features=feats, functions=FC_FN,
        domain="buffers of %d bytes with byte 0 = 0x%02x%s, every other bit symbolic" % (length, b0, (", byte 4 = 0x%02x" % b4) if b4 >= 0 else ""))


HDR = ["C02", "C04", "C01", "C20"]
QUICK_B0 = {0: 0x02, 4: 0x20, 5: 0x28, 11: 0x5d, 16: 0x80, 19: 0x98, 24: 0xc5, 27: 0xdd, 31: 0xf8}
EXTRA = {0: ["C06"], 4: ["C06"], 5: ["C09"], 16: ["C06"]}
# every value of byte 0 of the formats without an ME/MB dispatch: one harness per value
for _df in (0, 4, 5, 11, 16, 19, 24, 25, 26, 27, 28, 29, 30, 31):
    for _low in range(8):
        _b0 = (_df << 3) | _low
        _q = QUICK_B0.get(_df) == _b0 or (_df == 11 and _low in (1, 7)) or (_df == 24 and _low == 2)
        dfh("df%02d_b0_%02x" % (_df, _b0), _b0, props=HDR + EXTRA.get(_df, []),
            tier="quick" if _q else "thorough", feats=("std", "alloc") if QUICK_B0.get(_df) == _b0 else ("std",))
# rejected formats: every value of byte 0
for _df in (1, 2, 3, 6, 7, 8, 9, 10, 12, 13, 14, 15, 22, 23):
    for _low in range(8):
        dfh("df%02d_rej_%02x" % (_df, (_df << 3) | _low), (_df << 3) | _low, props=["C02", "C01", "C20"],
            tier="quick" if (_df in (1, 15, 22, 23) and _low == 0) else "thorough",
            feats=("std", "alloc") if (_df == 23 and _low == 0) else ("std",))
# Comm-B: byte 4 = first MB byte
for _df, _b0 in ((20, 0xa0), (21, 0xa8)):
    for _b4 in (0x00, 0x10, 0x20, 0x30):
        dfh("df%d_mb%02x" % (_df, _b4), _b0, _b4, props=HDR + ["C10"] + (["C06"] if _df == 20 else ["C09"]) + (["C08"] if _b4 == 0x20 else []),
            tier="quick" if (_df, _b4) in ((20, 0x10), (21, 0x20), (21, 0x30), (20, 0x00)) else "thorough",
            feats=("std", "alloc") if _b4 == 0x20 and _df == 21 else ("std",))
    for _low in range(1, 8):
        dfh("df%d_fs%d" % (_df, _low), _b0 + _low, 0x30, props=HDR, tier="thorough")
# extended squitter: one first-ME-byte per payload class with CA = 5, and every CA / CF with one class
ES_CLASSES = [(0x00, []), (0x20, ["C08"]), (0x28, []), (0x58, ["C06"]), (0x98, ["C07"]), (0x99, ["C07"]), (0x9b, ["C07"]),
              (0xa0, ["C06"]), (0xb8, []), (0xc0, []), (0xc8, []), (0xe1, ["C09"]), (0xea, []), (0xf0, []),
              (0xf8, []), (0xf9, []), (0xfa, [])]
for _b4, _extra in ES_CLASSES:
    dfh("df17_ca5_me%02x" % _b4, 0x8d, _b4, props=HDR + ["C10"] + _extra,
        tier="quick" if _b4 in (0x58, 0x99, 0x20, 0xf8, 0x00, 0xc0, 0xe1) else "thorough",
        feats=("std", "alloc") if _b4 in (0x58,) else ("std",))
    dfh("df18_cf0_me%02x" % _b4, 0x90, _b4, props=HDR + ["C10"] + _extra,
        tier="quick" if _b4 in (0x58,) else "thorough")
for _ca in (0, 1, 2, 3, 4, 6, 7):
    dfh("df17_ca%d_me58" % _ca, 0x88 | _ca, 0x58, props=HDR + ["C10"], tier="quick" if _ca in (1, 7) else "thorough")
    _cf = _ca if _ca else 5
    dfh("df18_cf%d_me58" % _cf, 0x90 | _cf, 0x58, props=HDR + ["C10"], tier="quick" if _cf in (6,) else "thorough")
# C02 / C03: what Frame::from_bytes adds (acceptance, checksum window), exact / over-long buffers in
# both builds, truncated buffers in the alloc build only (with std the bit-packed std::io::Error
# makes every failed read ambiguous for CBMC: measured, see DESIGN)
for _nm, _b0, _b4, _need in (("df00", 0x02, -1, 7), ("df11", 0x5d, -1, 7), ("df17", 0x8d, 0xc0, 14), ("df20", 0xa0, 0x00, 14),
                              ("df16", 0x80, -1, 14), ("df24", 0xc5, -1, 14), ("df19", 0x98, -1, 14), ("df15", 0x78, -1, 14)):
    for _len in (0, 1, 2, 3, 4, 5, 6, 7, 8, 13, 14, 15, 20, 32):
        _short = _len < _need
        if _short:
            continue  # intractable for CBMC in both builds (measured); decided by the bounded native sweep of C02
        _quick = (_nm, _len) in (("df11", 7), ("df11", 8), ("df11", 32), ("df17", 14), ("df17", 15), ("df17", 32), ("df19", 14), ("df19", 32), ("df24", 14), ("df00", 7), ("df15", 14))
        fch("fc_%s_%02d" % (_nm, _len), _len, _b0, _b4 if _len > 4 else -1,
            tier="quick" if _quick else "thorough", feats=("alloc",) if _short else ("std", "alloc") if (_nm, _len) in (("df11", 7), ("df17", 14), ("df19", 32)) else ("std",))

add("crc_native", "adsb_deku", L + "obl_crc_native", props=["C03-native"], stubs=[], tier="native",
    domain="native search / replay only", functions=["crc::modes_checksum"])

V = "crate::verif_obl_vel::"
VEL_STUBS = ["libm::atan2 => crate::verif_obl_vel::atan2_stub", "libm::hypot => crate::verif_obl_vel::hypot_stub"]
for _st in range(8):
    add("vel_calc_st%d_p0" % _st, "adsb_deku", V + "obl_velocity_calc", args="%d, 0" % _st, props=["C07", "C01"], stubs=VEL_STUBS,
        tier="quick" if _st in (0, 1, 2, 3) else "thorough", timeout=600,
        domain="subtype %d x all 2^22 velocity words x all 2^10 vertical-rate codes (ghost atan2 / hypot results fixed)" % _st,
        functions=["adsb::AirborneVelocity::calculate", "Sign::value"])
    if _st in (1, 2):
        add("vel_calc_st%d_p1" % _st, "adsb_deku", V + "obl_velocity_calc", args="%d, 1" % _st, props=["C07", "C01"], stubs=VEL_STUBS, tier="thorough", timeout=2400,
            domain="subtype %d, one (westward) velocity word, atan2 / hypot results arbitrary within the stated envelope" % _st,
            functions=["adsb::AirborneVelocity::calculate"])
        for _k in range(8):
            add("vel_calc_st%d_s%d" % (_st, _k), "adsb_deku", V + "obl_velocity_calc", args="%d, %d" % (_st, 10 + _k), props=["C07"], stubs=VEL_STUBS,
                tier="quick" if (_st == 1 or _k in (0, 3)) else "thorough", timeout=600,
                bounded="ghost atan2 result = sample %d of 8 concrete values (negative half plane, where the +360 wrap applies)" % _k,
                domain="subtype %d, one (westward) velocity word, one concrete atan2 result" % _st, functions=["adsb::AirborneVelocity::calculate"])

P = "crate::cpr::verif_cpr::"
PM_STUB = "crate::cpr::positive_mod => crate::cpr::verif_cpr::positive_mod_contract"
add("cpr_nl", "adsb_deku", P + "obl_cpr_nl", props=["C05", "C01", "C20"], stubs=[], unwind=60, features=("std", "alloc"),
    domain="all 2^64 f64 values incl. NaN and infinities", functions=["cpr::cpr_nl"])
add("cpr_pos_lat", "adsb_deku", P + "obl_get_position", args="1", props=["C05", "C01"], stubs=[PM_STUB], unwind=60, features=("std", "alloc"), tier="thorough",
    domain="all parities x all 2^34 latitude pairs, longitudes fixed (51372, 50194)", timeout=1800,
    functions=["cpr::get_position", "cpr::get_lat_lon", "cpr::cpr_nl"], bounded="longitudes fixed to one pair (the latitude / consistency clauses do not depend on them)")
add("cpr_pos_full", "adsb_deku", P + "obl_get_position", args="0", props=["C05", "C01"], stubs=[PM_STUB], unwind=60, tier="thorough",
    domain="all parities x all 2^68 raw (lat, lon, lat, lon) quadruples", timeout=7200,
    functions=["cpr::get_position", "cpr::get_lat_lon", "cpr::cpr_nl"])
add("cpr_posmod_native", "adsb_deku", P + "obl_positive_mod_native", props=["C05-native"], stubs=[], tier="native",
    domain="native: all integer a in [-130,130], b in 1..=60", functions=["cpr::positive_mod"])

# ---- E-T tracker (rsadsb_common) ---------------------------------------------------------------
T = "crate::verif_obl_tracker::"
ENTRY = "crate::Airplanes::entry_or_insert => crate::verif_obl_tracker::entry_stub"
GP = "adsb_deku::cpr::get_position => crate::verif_obl_tracker::gp_stub"
HV = "crate::AirplaneCoor::haversine_distance => crate::verif_obl_tracker::hv_stub"
CALC = "adsb_deku::adsb::AirborneVelocity::calculate => crate::verif_obl_tracker::calc_stub"
GET = "crate::Airplanes::get => crate::verif_obl_tracker::get_stub"
NOW = "std::time::SystemTime::now => crate::verif_obl_tracker::now_stub"
TRK_FN = ["Airplanes::action", "Airplanes::update_position", "AirplaneCoor::update_position", "Airplanes::incr_messages",
          "Airplanes::add_identification", "Airplanes::add_airborne_velocity"]
for _mask in range(8):
    for _w in range(3):
        add("trk_entry_m%d_k%d" % (_mask, _w), "rsadsb_common", T + "obl_entry_or_insert", args="%d, %d" % (_mask, _w),
            props=["C12", "C01"], stubs=["fmt"], unwind=6, features=("alloc",), tier="quick" if _mask == 0 else "native-bounded",
            bounded="3 fixed addresses, <= 3 records, light record contents (BTreeMap parametricity assumed beyond)" + ("" if _mask == 0 else "; executed natively (concrete case): CBMC runs out of memory on B-tree nodes holding 300-byte records"),
            domain="map holding subset %d of {A,B,C}, request for key %d" % (_mask, _w), functions=["Airplanes::entry_or_insert"], timeout=600)
for _d in (0, 1):
    _n = "df18" if _d else "df17"
    _b = "true" if _d else "false"
    for _ts in ("false", "true"):
        for _lv, _ln in ((3, "pub"), (7, "inv")):
            add("trk_pos_%s_track%s_%s" % (_n, _ts[0], _ln), "rsadsb_common", T + "obl_action_position", args=_b + ", " + _ts + ", %d" % _lv,
                props=["C12", "C13", "C14", "C01"], stubs=["fmt", ENTRY, GP, HV], unwind=6,
                features=("alloc",), domain="fully symbolic record (track %s) x symbolic position report x receiver x range (non-NaN) x arbitrary pairing / distance results; clause groups mask %d" % ("empty" if _ts == "true" else "absent", _lv),
                functions=TRK_FN, timeout=900, tier="quick" if ((_d == 0 and _ts == "false") or (_d == 1 and _ts == "false" and _ln == "pub")) else "thorough")
    add("trk_ident_" + _n, "rsadsb_common", T + "obl_action_ident", args=_b + ", false", props=["C12", "C14", "C01"], stubs=["fmt", ENTRY], unwind=6,
        features=("alloc",), domain="fully symbolic record (no callsign yet) x identification report", functions=TRK_FN, timeout=900)
    add("trk_ident2_" + _n, "rsadsb_common", T + "obl_action_ident", args=_b + ", true", props=["C14"], stubs=["fmt", ENTRY], unwind=6,
        features=("alloc",), domain="fully symbolic record that already has a callsign x identification report (latest wins)", functions=TRK_FN, timeout=900)
    add("trk_vel_" + _n, "rsadsb_common", T + "obl_action_velocity", args=_b, props=["C12", "C14", "C01"], stubs=["fmt", ENTRY, CALC], unwind=6,
        features=("alloc",), domain="fully symbolic record x velocity report with arbitrary derived velocity", functions=TRK_FN, timeout=900)
    for _w in (0, 1, 2):
        add("trk_other%d_%s" % (_w, _n), "rsadsb_common", T + "obl_action_other_me", args=_b + ", %d" % _w, props=["C12", "C01"] + (["C15"] if (_w == 0) else []), stubs=["fmt", ENTRY], unwind=8,
            features=("alloc",), domain="fully symbolic record x payload type kind %d (type 0 / 30 / 24) with symbolic contents" % _w, functions=TRK_FN, timeout=900,
            tier="quick" if _w < 2 else "thorough")
for _w, _wn in ((0, "df11"), (1, "df19"), (2, "df24"), (3, "df05")):
    add("trk_non_es_" + _wn, "rsadsb_common", T + "obl_action_non_es", args="%d" % _w, props=["C12", "C01"], stubs=["fmt", ENTRY], unwind=6, features=("alloc",),
        domain="%s frames with symbolic contents" % _wn.upper(), functions=["Airplanes::action"], timeout=600)
add("trk_details", "rsadsb_common", T + "obl_details", props=["C14", "C01"], stubs=["fmt", GET], unwind=6, features=("alloc",),
    domain="fully symbolic record", functions=["Airplanes::aircraft_details", "AirplaneCoor::altitude"], timeout=900)
for _mask, _pm in ((0, 0), (7, 0), (7, 7), (7, 5), (7, 2), (5, 4), (2, 2), (3, 1)):
    add("trk_allpos_%d_%d" % (_mask, _pm), "rsadsb_common", T + "obl_all_position", args="%d, %d" % (_mask, _pm), props=["C14", "C01"], stubs=["fmt"], unwind=6,
        features=("alloc",), bounded="<= 3 records, concrete contents; executed natively when the map is not empty (CBMC memory)", tier="quick" if _mask == 0 else "native-bounded",
        domain="map subset %d with positions on %d" % (_mask, _pm), functions=["Airplanes::all_position"], timeout=600)
add("trk_c15_native", "rsadsb_common", T + "obl_c15_native", props=["C15"], stubs=[], tier="native-bounded", features=("std",),
    bounded="real clock and real map, concrete cases: last-heard refresh (incr_messages, action), expiry boundary (0.5 s kept / 1.5 s removed / clock backwards removed, T = 1) at six phases of the wall-clock second, T = 0, re-appearance after expiry",
    domain="native concrete cases", functions=["Airplanes::prune", "Airplanes::incr_messages", "Airplanes::action"])

add("frame_any_native", "adsb_deku", F + "obl_frame_any", props=["native-oracle"], stubs=[], tier="native",
    domain="native oracle: any buffer of 0..=32 bytes", functions=["Frame::from_bytes"])

# ---- C19: reader independence -------------------------------------------------------------------
R = "crate::verif_obl_reader::"
RD_FN = ["Frame::from_reader", "ReaderCrc::read", "ReaderCrc::seek", "Frame::read_crc"]
for _nm, _b0, _b4 in (("df11", 0x5d, -1), ("df19", 0x98, -1), ("df24", 0xc5, -1), ("df17tc24", 0x8d, 0xc0), ("df00", 0x02, -1), ("df16", 0x80, -1), ("df20mb30", 0xa0, 0x30)):
    add("rd_single_%s" % _nm, "adsb_deku", R + "obl_reader_frag", args="0x%02x, %d, 0, 0" % (_b0, _b4), props=["C19", "C01"], unwind=40, kani_flags=FAST,
        tier="quick" if _nm in ("df11", "df19", "df24", "df17tc24") else "thorough", timeout=900,
        bounded="schedule: every read delivers one byte; formats listed; frame bytes symbolic",
        domain="complete frames, byte 0 = 0x%02x%s, all other bits symbolic; all-single-byte schedule" % (_b0, (", byte 4 = 0x%02x" % _b4) if _b4 >= 0 else ""), functions=RD_FN)
    for _k in (0, 1, 2, 3):
        add("rd_short%d_%s" % (_k, _nm), "adsb_deku", R + "obl_reader_frag", args="0x%02x, %d, 1, %d" % (_b0, _b4, _k), props=["C19", "C01"], unwind=40, kani_flags=FAST,
            tier="quick" if (_nm in ("df24", "df11") and _k in (0, 1)) else "thorough", timeout=900,
            bounded="schedule: read call #%d is short (1 byte)" % _k,
            domain="complete frames, byte 0 = 0x%02x, all other bits symbolic; read call %d short" % (_b0, _k), functions=RD_FN)
add("reader_any_native", "adsb_deku", R + "obl_reader_any", props=["native-oracle"], stubs=[], tier="native",
    domain="native oracle: any buffer, any schedule", functions=RD_FN)

add("leaf_ident_loop", "adsb_deku", L + "obl_ident_loop", props=["C08", "C01", "C20"], unwind=10, features=("std", "alloc"),
    domain="all 2^48 six-byte buffers; mechanically extracted character loop of aircraft_identification_read",
    functions=["aircraft_identification_read (slice: character loop)"], timeout=900)
for _len in range(9):
    for _pos in range(max(_len, 1)):
        add("leaf_ident_tail_%d_%d" % (_len, _pos), "adsb_deku", L + "obl_ident_tail", args="%d, %d" % (_len, _pos), props=["C08", "C01"], unwind=12,
            bounded="one symbolic code at a time (all 64 values at position %d of %d), the other codes fixed" % (_pos, _len),
            domain="code vectors of length %d, position %d symbolic; mechanically extracted String statement of aircraft_identification_read" % (_len, _pos),
            functions=["aircraft_identification_read (slice: table mapping)"], timeout=900,
            tier="quick" if (_len, _pos) in ((0, 0), (1, 0), (8, 0), (8, 7), (8, 3), (7, 6)) else "thorough")

add("leaf_icao_text", "adsb_deku", L + "obl_icao_text", props=["C04", "C01"], unwind=10, stubs=[],
    domain="all 2^24 addresses (FromStr half; Display natively)", functions=["<ICAO as FromStr>::from_str"], timeout=900)


# C01 quick: a representative, cheap subset (every harness carries Kani's panic obligations; the
# thorough tier takes all of them).  Every quick command has to finish well inside 15 minutes from a
# cold cache.
C01_QUICK = {"leaf_decode_id13", "leaf_mode_a_to_mode_c", "leaf_ac13_read", "leaf_ac12_read", "leaf_identity_read", "leaf_ident_loop",
             "df00_b0_02", "df04_b0_20", "df05_b0_28", "df11_b0_5d", "df16_b0_80", "df19_b0_98", "df24_b0_c5", "df23_rej_b8",
             "df17_ca5_mec0", "df17_ca5_me58", "df17_ca5_me00", "df18_cf0_me58", "df20_mb00", "df21_mb30",
             "fc_df11_07", "fc_df11_32", "fc_df17_14", "fc_df19_32", "fc_df24_14",
             "vel_calc_st1_p0", "vel_calc_st3_p0", "vel_calc_st1_s0", "cpr_nl", "rd_single_df11",
             "trk_entry_m0_k0", "trk_ident_df17", "trk_vel_df17", "trk_details", "trk_non_es_df11", "trk_non_es_df24",
             "trk_other0_df17", "trk_pos_df17_trackf_inv"}


# C02 quick keeps one harness per format / acceptance class; the per-field variants of the same
# formats (C04 / C10) are left to those properties and to the thorough tier
C02_QUICK_EXCLUDE = {"df17_ca1_me58", "df17_ca7_me58", "df18_cf6_me58", "df17_ca5_me20", "df17_ca5_mee1", "df21_mb20", "df17_ca5_me99",
                     "df11_b0_59", "df11_b0_5f", "df24_b0_c2", "df27_b0_dd", "fc_df17_15", "fc_df11_08"}


def select(prop, tier):
    out = []
    for o in OBL:
        if prop not in o["props"]:
            continue
        if prop == "C01" and tier == "quick" and o["name"] not in C01_QUICK:
            continue
        if prop == "C02" and tier == "quick" and o["name"] in C02_QUICK_EXCLUDE:
            continue
        if o["tier"] in ("native", "native-bounded"):
            continue
        if tier == "quick" and o["tier"] != "quick":
            continue
        out.append(o)
    return out


def native_bounded(prop):
    return [o for o in OBL if prop in o["props"] and o["tier"] == "native-bounded"]
