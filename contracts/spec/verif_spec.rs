//! THE SPECIFICATION (adsb_deku side).  Pure functions written from the property statements and
//! the standards (Annex 10 vol IV, DO-260B, ICAO 9871), never from the code under verification.
//! Bit numbering follows the standards: frame bit 1 is the first transmitted bit (MSB of byte 0);
//! `me(b, i, w)` numbers the ME/MB field of long frames from 1 (= frame bit 33).
//! This file is compiled three ways: into the Kani harness build (cfg(kani)), into the native
//! replay build (cfg(verif_native)), and its CRC part is mirrored as Verus spec functions.
#![allow(dead_code, clippy::all)]

/// w-bit big-endian integer starting at frame bit `first` (1-based). w <= 64.
pub fn bits(b: &[u8], first: usize, w: usize) -> u64 {
    let start = first - 1;
    let end = start + w; // exclusive, in bits
    let first_byte = start / 8;
    let last_byte = (end - 1) / 8;
    let mut acc: u128 = 0;
    let mut i = first_byte;
    while i <= last_byte {
        acc = (acc << 8) | b[i] as u128;
        i += 1;
    }
    let drop = (last_byte + 1) * 8 - end;
    ((acc >> drop) & ((1u128 << w) - 1)) as u64
}

/// ME / MB field bit i (1-based), width w
pub fn me(b: &[u8], i: usize, w: usize) -> u64 {
    bits(b, 32 + i, w)
}

// ---------------------------------------------------------------------------------------------
// C02: formats, lengths
// ---------------------------------------------------------------------------------------------

pub fn df_of(b0: u8) -> u8 {
    b0 >> 3
}

pub fn df_supported(df: u8) -> bool {
    matches!(df, 0 | 4 | 5 | 11 | 16..=21 | 24..=31)
}

/// number of bytes of a frame of downlink format df
pub fn need_bytes(df: u8) -> usize {
    if df < 16 {
        7
    } else {
        14
    }
}

/// type-31 operational status reports that the library refuses: subtype 0/1 whose reserved bits
/// or version fall outside the ADS-B version 0-2 layout (C02).
/// airborne (subtype 0): CC ME 9-10 and 13-14 zero, OM ME 25-26 zero, version ME 41-43 <= 2
/// surface  (subtype 1): CC ME 9-10 zero,            OM ME 25-26 zero, version ME 41-43 <= 2
pub fn opstatus_reject(b: &[u8]) -> bool {
    let df = df_of(b[0]);
    if !(df == 17 || df == 18) || b.len() < 14 {
        return false;
    }
    if me(b, 1, 5) != 31 {
        return false;
    }
    let st = me(b, 6, 3);
    if st == 0 {
        me(b, 9, 2) != 0 || me(b, 13, 2) != 0 || me(b, 25, 2) != 0 || me(b, 41, 3) > 2
    } else if st == 1 {
        me(b, 9, 2) != 0 || me(b, 25, 2) != 0 || me(b, 41, 3) > 2
    } else {
        false
    }
}

pub fn accept(b: &[u8]) -> bool {
    if b.is_empty() {
        return false;
    }
    let df = df_of(b[0]);
    df_supported(df) && b.len() >= need_bytes(df) && !opstatus_reject(b)
}

// ---------------------------------------------------------------------------------------------
// C03: Mode S parity syndrome by school-book polynomial division (bit by bit)
// ---------------------------------------------------------------------------------------------

pub const GENERATOR: u32 = 0x1FF_F409;

/// remainder of (first n-3 bytes) * x^24 modulo the generator, XOR the last three bytes
pub fn syndrome(m: &[u8], n: usize) -> u32 {
    let mut rem: u32 = 0;
    let mut i = 0;
    while i < (n - 3) * 8 {
        let bit = ((m[i / 8] >> (7 - (i % 8))) & 1) as u32;
        // shift the next message bit in at x^24 position: rem = rem*x + bit*x^24  (mod g)
        rem ^= bit << 23;
        let top = rem & 0x80_0000;
        rem = (rem << 1) & 0xff_ffff;
        if top != 0 {
            rem ^= GENERATOR & 0xff_ffff;
        }
        i += 1;
    }
    rem ^ ((m[n - 3] as u32) << 16) ^ ((m[n - 2] as u32) << 8) ^ (m[n - 1] as u32)
}

// ---------------------------------------------------------------------------------------------
// C09: identity code.  13 bits: C1 A1 C2 A2 C4 A4 X B1 D1 B2 D2 B4 D4 (bit 12 .. bit 0)
// ---------------------------------------------------------------------------------------------

fn bit(x: u32, n: u32) -> u32 {
    (x >> n) & 1
}

/// four octal digits A B C D as hex-coded digits A<<12 | B<<8 | C<<4 | D
pub fn squawk_spec(x: u32) -> u32 {
    let (c1, a1, c2, a2, c4, a4) = (bit(x, 12), bit(x, 11), bit(x, 10), bit(x, 9), bit(x, 8), bit(x, 7));
    let (b1, d1, b2, d2, b4, d4) = (bit(x, 5), bit(x, 4), bit(x, 3), bit(x, 2), bit(x, 1), bit(x, 0));
    let a = a4 * 4 + a2 * 2 + a1;
    let bb = b4 * 4 + b2 * 2 + b1;
    let c = c4 * 4 + c2 * 2 + c1;
    let d = d4 * 4 + d2 * 2 + d1;
    (a << 12) | (bb << 8) | (c << 4) | d
}

// ---------------------------------------------------------------------------------------------
// C06: altitude codes
// ---------------------------------------------------------------------------------------------

/// binary value of an n-bit reflected Gray code (prefix XOR)
pub fn gray_to_bin(g: u32, nbits: u32) -> u32 {
    let mut out = 0u32;
    let mut acc = 0u32;
    let mut k = nbits;
    while k > 0 {
        k -= 1;
        acc ^= (g >> k) & 1;
        out = (out << 1) | acc;
    }
    out
}

/// Gillham altitude in feet of a 13-bit code with M = 0 and Q = 0; None = illegal pattern.
/// Annex 10 vol IV App. 1 / the classic algorithm: 500 ft ring = Gray(D2 D4 A1 A2 A4 B1 B2 B4),
/// 100 ft ring = Gray(C1 C2 C4) with 7 -> 5 and reflection on odd 500 ft counts; 0, 5, 6 illegal;
/// D1 must be 0.
pub fn gillham_ft(x: u32) -> Option<i32> {
    let (c1, a1, c2, a2, c4, a4) = (bit(x, 12), bit(x, 11), bit(x, 10), bit(x, 9), bit(x, 8), bit(x, 7));
    let (b1, d1, b2, d2, b4, d4) = (bit(x, 5), bit(x, 4), bit(x, 3), bit(x, 2), bit(x, 1), bit(x, 0));
    if d1 != 0 {
        return None;
    }
    let g500 = (d2 << 7) | (d4 << 6) | (a1 << 5) | (a2 << 4) | (a4 << 3) | (b1 << 2) | (b2 << 1) | b4;
    let g100 = (c1 << 2) | (c2 << 1) | c4;
    let n500 = gray_to_bin(g500, 8);
    let mut n100 = gray_to_bin(g100, 3);
    if n100 == 0 || n100 == 5 || n100 == 6 {
        return None;
    }
    if n100 == 7 {
        n100 = 5;
    }
    if n500 % 2 == 1 {
        n100 = 6 - n100;
    }
    Some(500 * n500 as i32 + 100 * n100 as i32 - 1300)
}

/// 13-bit altitude code -> altitude in ft, 0 = "no altitude"
pub fn ac13_spec(code: u32) -> u16 {
    let code = code & 0x1fff;
    if code == 0 || code == 0x1fff {
        return 0;
    }
    if code & 0x40 != 0 {
        return 0; // metric
    }
    let alt: i32 = if code & 0x10 != 0 {
        let n = ((code & 0x1f80) >> 2) | ((code & 0x20) >> 1) | (code & 0xf);
        25 * n as i32 - 1000
    } else {
        match gillham_ft(code) {
            Some(a) => a,
            None => return 0,
        }
    };
    if alt >= 1 && alt <= 65535 {
        alt as u16
    } else {
        0
    }
}

/// 12-bit altitude code (M bit removed).  Returns (value, zero_ok): the decoded altitude or
/// None for "no altitude"; an altitude of exactly 0 ft may be reported as Some(0) or None.
pub fn ac12_spec(code: u32) -> Option<u16> {
    let code = code & 0xfff;
    let alt: i32 = if code & 0x10 != 0 {
        let n = ((code & 0xfe0) >> 1) | (code & 0xf);
        25 * n as i32 - 1000
    } else {
        let with_m = ((code & 0xfc0) << 1) | (code & 0x3f);
        match gillham_ft(with_m) {
            Some(a) => a,
            None => return None,
        }
    };
    if alt >= 1 && alt <= 65535 {
        Some(alt as u16)
    } else {
        None
    }
}

/// does a decoded 12-bit altitude agree with the spec ("0 / None" both mean no altitude)
pub fn ac12_agrees(code: u32, got: Option<u16>) -> bool {
    match (ac12_spec(code), got) {
        (Some(a), Some(g)) => a == g,
        (None, None) => true,
        (None, Some(0)) => true,
        _ => false,
    }
}

// ---------------------------------------------------------------------------------------------
// C08: Annex 10 character set (Table 3-9): 1-26 -> A-Z, 32 -> space, 48-57 -> 0-9, else '#'
// ---------------------------------------------------------------------------------------------

pub fn charset(c: u8) -> u8 {
    match c {
        1..=26 => b'A' + (c - 1),
        32 => b' ',
        48..=57 => b'0' + (c - 48),
        _ => b'#',
    }
}

/// eight 6-bit characters starting at frame bit `first`, space padding removed.
/// returns (buffer, length)
pub fn ident_spec(b: &[u8], first: usize) -> ([u8; 8], usize) {
    let mut out = [0u8; 8];
    let mut n = 0;
    let mut k = 0;
    while k < 8 {
        let c = bits(b, first + 6 * k, 6) as u8;
        let ch = charset(c);
        if ch != b' ' {
            out[n] = ch;
            n += 1;
        }
        k += 1;
    }
    (out, n)
}

// ---------------------------------------------------------------------------------------------
// C07: airborne velocity, integer part
// ---------------------------------------------------------------------------------------------

/// (east, north, vrate) of a ground-speed report or None
pub fn velocity_int_spec(st: u8, ew_dir: u8, ew_raw: u16, ns_dir: u8, ns_raw: u16, vr_sign: u8, vr_raw: u16) -> Option<(i32, i32, i32)> {
    if !(st == 1 || st == 2) {
        return None;
    }
    if ew_raw == 0 || ns_raw == 0 || vr_raw == 0 {
        return None;
    }
    let k: i32 = if st == 2 { 4 } else { 1 };
    let e = k * (ew_raw as i32 - 1) * if ew_dir == 1 { -1 } else { 1 };
    let n = k * (ns_raw as i32 - 1) * if ns_dir == 1 { -1 } else { 1 };
    let v = 64 * (vr_raw as i32 - 1) * if vr_sign == 1 { -1 } else { 1 };
    Some((e, n, v))
}
