// Ghost text of the Verus file for crc.rs (engine E-V).  The executable text (CRC_TABLE and
// modes_checksum) is copied verbatim from /repo/libadsb_deku/src/crc.rs on every run and placed at
// the markers; everything in this file is specification and proof.

// ===SPEC===
#[derive(Debug)] pub enum DekuError { Incomplete(NeedSize) }
#[derive(Debug)] pub struct NeedSize { pub bits: usize }
impl NeedSize { pub fn new(bits: usize) -> (r: Self) { NeedSize { bits } } }

/// one step of the school-book division of the 24-bit register by g(x) = 0x1FFF409:
/// multiply by x, subtract g when the x^24 coefficient appears
pub open spec fn bs(r: u32) -> u32 {
    if (r & 0x80_0000) != 0 { ((r << 1) ^ 0x1FF_F409) & 0xff_ffff } else { (r << 1) & 0xff_ffff }
}
pub open spec fn bs8(r: u32) -> u32 { bs(bs(bs(bs(bs(bs(bs(bs(r)))))))) }

/// remainder of (first n bytes of s) * x^24 modulo g, bit-serial, most significant bit first
pub open spec fn pdiv(s: Seq<u8>, n: int) -> u32
    decreases n
{
    if n <= 0 { 0 } else { bs8(pdiv(s, n - 1) ^ ((s[n - 1] as u32) << 16)) }
}

/// THE PROPERTY (C03): remainder of the leading n-3 bytes modulo the generator, combined with the
/// last 24 bits
pub open spec fn syndrome(s: Seq<u8>, n: int) -> u32 {
    pdiv(s, n - 3) ^ ((((s[n - 3] as u32) << 16) ^ ((s[n - 2] as u32) << 8)) ^ (s[n - 1] as u32))
}

pub open spec fn step(rem: u32, b: u8) -> u32 {
    (((rem << 8) ^ CRC_TABLE[((b as u32) ^ ((rem & 0x00ff_0000) >> 16)) as int]) & 0x00ff_ffff) as u32
}

pub open spec fn table_ok(i: int) -> bool
    decreases i
{
    if i <= 0 { true } else { CRC_TABLE[i - 1] == bs8(((i - 1) as u32) << 16) && table_ok(i - 1) }
}

proof fn lemma_table_all()
    ensures table_ok(256),
{
    assert(table_ok(256)) by(compute_only);
}

proof fn lemma_table_at(i: int, t: int)
    requires table_ok(i), 0 <= t < i,
    ensures CRC_TABLE[t] == bs8((t as u32) << 16),
    decreases i,
{
    if t == i - 1 {
    } else {
        lemma_table_at(i - 1, t);
    }
}

proof fn lin1(a: u32, b: u32)
    requires a <= 0xff_ffff, b <= 0xff_ffff,
    ensures bs(a ^ b) == bs(a) ^ bs(b), bs(a) <= 0xff_ffff, bs(b) <= 0xff_ffff, a ^ b <= 0xff_ffff,
{
    assert(
        (if ((a ^ b) & 0x80_0000u32) != 0 { (((a ^ b) << 1) ^ 0x1FF_F409u32) & 0xff_ffffu32 } else { ((a ^ b) << 1) & 0xff_ffffu32 })
        ==
        (if (a & 0x80_0000u32) != 0 { ((a << 1) ^ 0x1FF_F409u32) & 0xff_ffffu32 } else { (a << 1) & 0xff_ffffu32 })
        ^
        (if (b & 0x80_0000u32) != 0 { ((b << 1) ^ 0x1FF_F409u32) & 0xff_ffffu32 } else { (b << 1) & 0xff_ffffu32 })
    ) by(bit_vector);
    assert((if (a & 0x80_0000u32) != 0 { ((a << 1) ^ 0x1FF_F409u32) & 0xff_ffffu32 } else { (a << 1) & 0xff_ffffu32 }) <= 0xff_ffffu32) by(bit_vector);
    assert((if (b & 0x80_0000u32) != 0 { ((b << 1) ^ 0x1FF_F409u32) & 0xff_ffffu32 } else { (b << 1) & 0xff_ffffu32 }) <= 0xff_ffffu32) by(bit_vector);
    assert(a ^ b <= 0xff_ffffu32) by(bit_vector) requires a <= 0xff_ffffu32, b <= 0xff_ffffu32;
}

/// GF(2)-linearity of eight division steps
proof fn lin8(a: u32, b: u32)
    requires a <= 0xff_ffff, b <= 0xff_ffff,
    ensures bs8(a ^ b) == bs8(a) ^ bs8(b), bs8(a) <= 0xff_ffff, bs8(b) <= 0xff_ffff,
{
    lin1(a, b);
    let a1 = bs(a); let b1 = bs(b);
    lin1(a1, b1);
    let a2 = bs(a1); let b2 = bs(b1);
    lin1(a2, b2);
    let a3 = bs(a2); let b3 = bs(b2);
    lin1(a3, b3);
    let a4 = bs(a3); let b4 = bs(b3);
    lin1(a4, b4);
    let a5 = bs(a4); let b5 = bs(b4);
    lin1(a5, b5);
    let a6 = bs(a5); let b6 = bs(b5);
    lin1(a6, b6);
    let a7 = bs(a6); let b7 = bs(b6);
    lin1(a7, b7);
}

/// a register whose top byte is clear is only shifted by eight steps
proof fn low8(l: u32)
    requires l <= 0xffff,
    ensures bs8(l) == l << 8,
{
    let l1 = bs(l);
    assert(l1 == l << 1 && l1 <= 0x1_ffff) by(bit_vector) requires l <= 0xffffu32, l1 == (if (l & 0x80_0000u32) != 0 { ((l << 1) ^ 0x1FF_F409u32) & 0xff_ffffu32 } else { (l << 1) & 0xff_ffffu32 });
    let l2 = bs(l1);
    assert(l2 == l << 2 && l2 <= 0x3_ffff) by(bit_vector) requires l <= 0xffffu32, l1 == l << 1, l2 == (if (l1 & 0x80_0000u32) != 0 { ((l1 << 1) ^ 0x1FF_F409u32) & 0xff_ffffu32 } else { (l1 << 1) & 0xff_ffffu32 });
    let l3 = bs(l2);
    assert(l3 == l << 3 && l3 <= 0x7_ffff) by(bit_vector) requires l <= 0xffffu32, l2 == l << 2, l3 == (if (l2 & 0x80_0000u32) != 0 { ((l2 << 1) ^ 0x1FF_F409u32) & 0xff_ffffu32 } else { (l2 << 1) & 0xff_ffffu32 });
    let l4 = bs(l3);
    assert(l4 == l << 4 && l4 <= 0xf_ffff) by(bit_vector) requires l <= 0xffffu32, l3 == l << 3, l4 == (if (l3 & 0x80_0000u32) != 0 { ((l3 << 1) ^ 0x1FF_F409u32) & 0xff_ffffu32 } else { (l3 << 1) & 0xff_ffffu32 });
    let l5 = bs(l4);
    assert(l5 == l << 5 && l5 <= 0x1f_ffff) by(bit_vector) requires l <= 0xffffu32, l4 == l << 4, l5 == (if (l4 & 0x80_0000u32) != 0 { ((l4 << 1) ^ 0x1FF_F409u32) & 0xff_ffffu32 } else { (l4 << 1) & 0xff_ffffu32 });
    let l6 = bs(l5);
    assert(l6 == l << 6 && l6 <= 0x3f_ffff) by(bit_vector) requires l <= 0xffffu32, l5 == l << 5, l6 == (if (l5 & 0x80_0000u32) != 0 { ((l5 << 1) ^ 0x1FF_F409u32) & 0xff_ffffu32 } else { (l5 << 1) & 0xff_ffffu32 });
    let l7 = bs(l6);
    assert(l7 == l << 7 && l7 <= 0x7f_ffff) by(bit_vector) requires l <= 0xffffu32, l6 == l << 6, l7 == (if (l6 & 0x80_0000u32) != 0 { ((l6 << 1) ^ 0x1FF_F409u32) & 0xff_ffffu32 } else { (l6 << 1) & 0xff_ffffu32 });
    let l8 = bs(l7);
    assert(l8 == l << 8) by(bit_vector) requires l <= 0xffffu32, l7 == l << 7, l8 == (if (l7 & 0x80_0000u32) != 0 { ((l7 << 1) ^ 0x1FF_F409u32) & 0xff_ffffu32 } else { (l7 << 1) & 0xff_ffffu32 });
}

/// the table-driven byte step of the code is eight steps of the polynomial division
proof fn lemma_step(rem: u32, b: u8)
    requires rem <= 0xff_ffff,
    ensures step(rem, b) == bs8(rem ^ ((b as u32) << 16)), step(rem, b) <= 0xff_ffff,
{
    let bb = b as u32;
    let x = rem ^ (bb << 16);
    let t = (bb ^ ((rem & 0x00ff_0000) >> 16));
    let hi = t << 16;
    let low = rem & 0xffff;
    assert(t < 256 && x == hi ^ low && hi <= 0xff_ffff && low <= 0xffff && x <= 0xff_ffff
           && ((rem << 8) & 0x00ff_ffff) == (low << 8)) by(bit_vector)
        requires rem <= 0xff_ffffu32, bb < 256u32, x == rem ^ (bb << 16), t == (bb ^ ((rem & 0x00ff_0000u32) >> 16)), hi == t << 16, low == rem & 0xffffu32;
    lemma_table_all();
    lemma_table_at(256, t as int);
    lin8(hi, low);
    low8(low);
    let tv = CRC_TABLE[t as int];
    assert(tv == bs8(hi));
    assert(tv <= 0xff_ffff);
    assert((((rem << 8) ^ tv) & 0x00ff_ffffu32) == (low << 8) ^ tv) by(bit_vector)
        requires tv <= 0xff_ffffu32, ((rem << 8) & 0x00ff_ffffu32) == (low << 8);
    assert(((low << 8) ^ tv) == (tv ^ (low << 8))) by(bit_vector);
    assert(bs8(hi) ^ bs8(low) <= 0xff_ffffu32) by(bit_vector) requires bs8(hi) <= 0xff_ffffu32, bs8(low) <= 0xff_ffffu32;
}

// ===ENSURES===
    ensures
        (bits / 8 < 3 || message@.len() < bits / 8) ==> res.is_err(),
        !(bits / 8 < 3 || message@.len() < bits / 8) ==> (res matches Ok(v) && v == syndrome(message@, (bits / 8) as int)),
// ===INVARIANT===
        invariant
            n == bits / 8, n >= 3, message@.len() >= n,
            rem == pdiv(message@, i as int),
            rem <= 0x00ff_ffff,
// ===LOOP_HEAD===
        proof {
            let r = rem; let b = message@[i as int];
            assert(((b as u32) ^ ((r & 0x00ff_0000) >> 16)) < 256) by(bit_vector)
                requires r <= 0x00ff_ffffu32;
            lemma_step(r, b);
        }
        let ghost old_rem = rem;
// ===AFTER_TABLE_STEP===
        let ghost pre_mask = rem;
// ===AFTER_MASK===
        proof {
            assert(pre_mask & 0x00ff_ffff <= 0x00ff_ffffu32) by(bit_vector);
            assert(rem == step(old_rem, message@[i as int]));
        }
// ===LEMMAS===
/// linearity of the remainder: pdiv(a xor b) == pdiv(a) xor pdiv(b) (bytewise xor of equally long messages)
pub open spec fn xor_seq(a: Seq<u8>, b: Seq<u8>) -> Seq<u8> {
    Seq::new(a.len(), |i: int| a[i] ^ b[i])
}

proof fn lemma_pdiv_bound(s: Seq<u8>, n: int)
    requires 0 <= n <= s.len(),
    ensures pdiv(s, n) <= 0xff_ffff,
    decreases n,
{
    if n > 0 {
        lemma_pdiv_bound(s, n - 1);
        let r = pdiv(s, n - 1);
        let bb = s[n - 1] as u32;
        assert(r ^ (bb << 16) <= 0xff_ffffu32) by(bit_vector) requires r <= 0xff_ffffu32, bb < 256u32;
        lin8(r ^ (bb << 16), 0);
    }
}

proof fn lemma_pdiv_linear(a: Seq<u8>, b: Seq<u8>, n: int)
    requires a.len() == b.len(), 0 <= n <= a.len(),
    ensures pdiv(xor_seq(a, b), n) == pdiv(a, n) ^ pdiv(b, n),
    decreases n,
{
    if n <= 0 {
        assert(0u32 ^ 0u32 == 0u32) by(bit_vector);
    } else {
        lemma_pdiv_linear(a, b, n - 1);
        lemma_pdiv_bound(a, n - 1);
        lemma_pdiv_bound(b, n - 1);
        let ra = pdiv(a, n - 1); let rb = pdiv(b, n - 1);
        let av: u8 = a[n - 1]; let bv: u8 = b[n - 1];
        let ba = av as u32; let bb = bv as u32;
        let xv: u8 = xor_seq(a, b)[n - 1];
        assert(xv == av ^ bv);
        let bx = xv as u32;
        assert(bx == ba ^ bb) by(bit_vector) requires xv == av ^ bv, bx == xv as u32, ba == av as u32, bb == bv as u32;
        let xa = ra ^ (ba << 16); let xb = rb ^ (bb << 16);
        assert(xa <= 0xff_ffffu32 && xb <= 0xff_ffffu32 && ((ra ^ rb) ^ ((ba ^ bb) << 16)) == xa ^ xb) by(bit_vector)
            requires ra <= 0xff_ffffu32, rb <= 0xff_ffffu32, ba < 256u32, bb < 256u32, xa == ra ^ (ba << 16), xb == rb ^ (bb << 16);
        lin8(xa, xb);
    }
}

/// zero kernel of one division step: the generator has constant term 1, so a non-zero register
/// never becomes zero (used by the burst argument: an error pattern of degree < 24 shifted to any
/// offset keeps a non-zero remainder)
proof fn lemma_bs_injective_at_zero(a: u32)
    requires a <= 0xff_ffff, bs(a) == 0,
    ensures a == 0,
{
    assert((a <= 0xff_ffffu32 && (if (a & 0x80_0000u32) != 0 { ((a << 1) ^ 0x1FF_F409u32) & 0xff_ffffu32 } else { (a << 1) & 0xff_ffffu32 }) == 0) ==> a == 0) by(bit_vector);
}

pub open spec fn bsn(r: u32, k: nat) -> u32
    decreases k
{
    if k == 0 { r } else { bs(bsn(r, (k - 1) as nat)) }
}

/// any non-zero 24-bit error pattern e(x) (a burst of length <= 24) multiplied by x^k has a
/// non-zero remainder, for every offset k
proof fn lemma_burst_nonzero(e: u32, k: nat)
    requires 0 < e <= 0xff_ffff,
    ensures bsn(e, k) != 0, bsn(e, k) <= 0xff_ffff,
    decreases k,
{
    if k > 0 {
        lemma_burst_nonzero(e, (k - 1) as nat);
        let p = bsn(e, (k - 1) as nat);
        lin1(p, 0);
        if bs(p) == 0 {
            lemma_bs_injective_at_zero(p);
        }
    }
}
