//! C19: decoding from a seekable reader is independent of read fragmentation and transient
//! `Interrupted` errors.  `SchedReader` delivers the bytes of a buffer according to a schedule:
//! `single` = at most one byte per call; `short_at` = the k-th read call returns at most one byte;
//! `interrupt_at` = the k-th read call fails once with ErrorKind::Interrupted.
#![allow(dead_code, unused_imports, unused_variables, unused_mut, clippy::all)]

use crate::verif_spec::*;
use crate::verif_support::*;
use crate::*;
use deku::no_std_io::{Read, Seek, SeekFrom};
#[cfg(feature = "std")]
extern crate std;

#[cfg(feature = "std")]
fn io_err<T>(interrupted: bool) -> deku::no_std_io::Result<T> {
    Err(std::io::Error::from(if interrupted { std::io::ErrorKind::Interrupted } else { std::io::ErrorKind::InvalidInput }))
}
#[cfg(not(feature = "std"))]
fn io_err<T>(_interrupted: bool) -> deku::no_std_io::Result<T> {
    panic!("error injection needs the std build")
}

pub struct SchedReader {
    pub data: [u8; 32],
    pub len: usize,
    pub pos: usize,
    pub calls: usize,
    pub single: bool,
    pub short_at: usize,
    pub interrupt_at: usize,
}

impl Read for SchedReader {
    fn read(&mut self, buf: &mut [u8]) -> deku::no_std_io::Result<usize> {
        let c = self.calls;
        self.calls += 1;
        if c == self.interrupt_at {
            return io_err(true);
        }
        let remaining = self.len - self.pos;
        let mut want = if buf.len() < remaining { buf.len() } else { remaining };
        if (self.single || c == self.short_at) && want > 1 {
            want = 1;
        }
        let mut i = 0;
        while i < want {
            buf[i] = self.data[self.pos + i];
            i += 1;
        }
        self.pos += want;
        Ok(want)
    }
}

impl Seek for SchedReader {
    fn seek(&mut self, pos: SeekFrom) -> deku::no_std_io::Result<u64> {
        match pos {
            SeekFrom::Current(d) => {
                let np = self.pos as i64 + d;
                if np < 0 || np > self.len as i64 {
                    return io_err(false);
                }
                self.pos = np as usize;
            }
            SeekFrom::Start(p) => self.pos = p as usize,
            SeekFrom::End(_) => return io_err(false),
        }
        Ok(self.pos as u64)
    }
}

fn same(a: &Result<Frame, DekuError>, b: &Result<Frame, DekuError>) -> bool {
    match (a, b) {
        (Ok(x), Ok(y)) => x.crc == y.crc && x.df == y.df,
        (Err(_), Err(_)) => true,
        _ => false,
    }
}

/// Kani: complete frame with concrete id bytes, symbolic rest, fragmentation schedule concrete
/// (mode 0 = every read one byte at a time, mode 1 = the k-th read is short)
pub fn obl_reader_frag(s: &mut Src, ctx: &mut Ctx, b0: u8, b4: i32, mode: u8, k: usize) {
    let need = need_bytes(df_of(b0));
    let mut b = [0u8; 32];
    s.fill(&mut b[..need]);
    b[0] = b0;
    if b4 >= 0 {
        b[4] = b4 as u8;
    }
    let r1 = Frame::from_bytes(&b[..need]);
    let rd = SchedReader { data: b, len: need, pos: 0, calls: 0, single: mode == 0, short_at: if mode == 1 { k } else { usize::MAX }, interrupt_at: usize::MAX };
    let r2 = Frame::from_reader(rd);
    vnote!(ctx, "bytes {:02x?}: from_bytes = {:?}; from_reader(fragmented) = {:?}", &b[..need], r1, r2);
    vcheck!(ctx, same(&r1, &r2), "[C19] decoding from a fragmenting reader yields the same frame and checksum as decoding the slice");
    let r3 = Frame::from_bytes(&b[..need]);
    vcheck!(ctx, same(&r1, &r3), "[C19] decoding is a pure function of the bytes (repeating it gives the same result)");
}

/// native oracle for bounded schedule sweeps: input = len, mode (0 single, 1 short at k,
/// 2 interrupt at k, 3 interrupt at k and k2), k, k2, bytes
pub fn obl_reader_any(s: &mut Src, ctx: &mut Ctx) {
    let len = (s.u8() as usize) % 33;
    let mode = s.u8();
    let k = s.u8() as usize;
    let k2 = s.u8() as usize;
    let mut b = [0u8; 32];
    s.fill(&mut b[..len]);
    let r1 = Frame::from_bytes(&b[..len]);
    let mut rd = SchedReader { data: b, len, pos: 0, calls: 0, single: mode == 0, short_at: if mode == 1 { k } else { usize::MAX }, interrupt_at: if mode >= 2 { k } else { usize::MAX } };
    let r2 = Frame::from_reader(rd);
    vnote!(ctx, "bytes {:02x?} mode {} k {}: from_bytes = {:?}; from_reader(scheduled) = {:?}", &b[..len], mode, k, r1, r2);
    vcheck!(ctx, same(&r1, &r2), "[C19] decoding from a fragmenting / interrupting reader yields the same frame and checksum as decoding the slice");
}
