
// ---- verification accessors for private fields (added lines only, cfg-gated) ----
#[cfg(any(kani, verif_native))]
impl ControlField {
    pub fn verif_t(&self) -> u8 {
        self.t.clone() as u8
    }
}
#[cfg(any(kani, verif_native))]
impl OperationalMode {
    pub fn verif_fields(&self) -> (u8, bool, bool, bool, bool, u8) {
        (
            self.reserved,
            self.tcas_ra_active,
            self.ident_switch_active,
            self.reserved_recv_atc_service,
            self.single_antenna_flag,
            self.system_design_assurance,
        )
    }
}
#[cfg(any(kani, verif_native))]
impl ControlField {
    pub fn verif_new(aa: ICAO, me: ME) -> Self {
        Self { t: ControlFieldType::ADSB_ES_NT, aa, me }
    }
}
