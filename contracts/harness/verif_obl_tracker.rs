//! Tracker contracts (engine E-T, rsadsb_common).
//! L0: contract of `Airplanes::entry_or_insert` proved at map level (concrete keys).
//! L1/L2: every function above it is verified against that *contract*: `entry_or_insert` is replaced
//! by a stub implementing exactly the contract over ghost records, so the touched record, the
//! incoming report, the receiver position and the range are fully symbolic.
//! `cpr::get_position`, the haversine distance and `AirborneVelocity::calculate` are ghost functions
//! (uninterpreted: they return arbitrary values and record their arguments).
#![allow(dead_code, unused_imports, unused_variables, unused_mut, static_mut_refs, clippy::all)]

extern crate alloc;
use crate::verif_support::*;
use crate::*;
use adsb_deku::adsb::{AirborneVelocitySubType, ControlField, GroundSpeedDecoding, VerticalRateSource, ADSB};
use adsb_deku::{Capability, Sign, SurveillanceStatus};
use alloc::string::String;
use alloc::vec::Vec;

pub const KA: ICAO = ICAO([0xaa, 0x00, 0x01]);
pub const KB: ICAO = ICAO([0x40, 0x62, 0x1d]);
pub const KC: ICAO = ICAO([0xff, 0xff, 0xfe]);

// ---------------------------------------------------------------------------------------------
// ghost state
// ---------------------------------------------------------------------------------------------
pub static mut G_REC: Option<AirplaneState> = None; // the record stored under G_KEY
pub static mut G_KEY: ICAO = ICAO([0, 0, 0]);
pub static mut G_VACANT: bool = false;
pub static mut G_CALLS: u32 = 0;
pub static mut G_WRONG_KEY: bool = false;

pub static mut GP_RET: Option<cpr::Position> = None;
pub static mut GP_CALLS: u32 = 0;
pub static mut GP_ARGS: Option<(Altitude, Altitude)> = None;
pub static mut HV_RET: [f64; 2] = [0.0; 2];
pub static mut HV_CALLS: u32 = 0;
pub static mut HV_ARGS: [((f64, f64), (f64, f64)); 2] = [((0.0, 0.0), (0.0, 0.0)); 2];
pub static mut CALC_RET: Option<(f32, f64, i16)> = None;
pub static mut CALC_CALLS: u32 = 0;

/// stub = the contract of entry_or_insert (proved by obl_entry_or_insert): the record stored under
/// `icao`; a default record is inserted first iff the key was vacant, reported once as Added::Yes
pub fn entry_stub(_this: &mut Airplanes, icao: ICAO) -> (&mut AirplaneState, Added) {
    unsafe {
        if icao != G_KEY {
            G_WRONG_KEY = true;
        }
        let added = Added::from(G_VACANT && G_CALLS == 0);
        G_CALLS += 1;
        (G_REC.as_mut().unwrap(), added)
    }
}

pub fn get_stub(_this: &Airplanes, key: ICAO) -> Option<&AirplaneState> {
    unsafe {
        if key == G_KEY && !G_VACANT {
            G_REC.as_ref()
        } else {
            None
        }
    }
}

pub fn gp_stub(f: (&Altitude, &Altitude)) -> Option<cpr::Position> {
    unsafe {
        GP_CALLS += 1;
        GP_ARGS = Some((*f.0, *f.1));
        GP_RET
    }
}

pub fn hv_stub(a: (f64, f64), b: (f64, f64)) -> f64 {
    unsafe {
        let first = HV_CALLS == 0;
        HV_CALLS += 1;
        if first {
            HV_ARGS[0] = (a, b);
            HV_RET[0]
        } else {
            HV_ARGS[1] = (a, b);
            HV_RET[1]
        }
    }
}

pub fn calc_stub(_v: &AirborneVelocity) -> Option<(f32, f64, i16)> {
    unsafe {
        CALC_CALLS += 1;
        CALC_RET
    }
}

// ---------------------------------------------------------------------------------------------
// symbolic values
// ---------------------------------------------------------------------------------------------
fn any_alt(s: &mut Src, odd: bool) -> Altitude {
    let mut a = Altitude::default();
    a.odd_flag = if odd { CPRFormat::Odd } else { CPRFormat::Even };
    a.lat_cpr = s.u32() & 0x1ffff;
    a.lon_cpr = s.u32() & 0x1ffff;
    a.alt = if s.bool() { Some(s.u16()) } else { None };
    a.tc = s.u8() & 0x1f;
    a.t = s.bool();
    a
}

fn any_pos(s: &mut Src) -> cpr::Position {
    cpr::Position { latitude: s.f64(), longitude: s.f64() }
}

fn any_coor(s: &mut Src) -> AirplaneCoor {
    let mut c = AirplaneCoor::default();
    c.altitudes = [if s.bool() { Some(any_alt(s, false)) } else { None }, if s.bool() { Some(any_alt(s, true)) } else { None }];
    c.position = if s.bool() { Some(any_pos(s)) } else { None };
    c.kilo_distance = if s.bool() { Some(s.f64()) } else { None };
    c
}

fn any_state(s: &mut Src, ctx: &mut Ctx, track_some: bool) -> AirplaneState {
    let mut st = AirplaneState::default();
    st.coords = any_coor(s);
    st.num_messages = s.u32();
    vrequire!(ctx, st.num_messages < u32::MAX);
    st.heading = if s.bool() { Some(s.f64() as f32) } else { None };
    st.speed = if s.bool() { Some(s.f64() as f32) } else { None };
    st.vert_speed = if s.bool() { Some(s.u16() as i16) } else { None };
    st.callsign = None;
    st.track = if track_some { Some(Vec::new()) } else { None };
    st
}

/// equality of published values: IEEE equality (0.0 == -0.0) or identical bits (NaN)
fn feq(a: f64, b: f64) -> bool {
    a == b || a.to_bits() == b.to_bits()
}

fn coor_eq(a: &AirplaneCoor, b: &AirplaneCoor) -> bool {
    // bitwise comparison (NaN-safe) of the semantic fields
    fn alt_eq(x: &Option<Altitude>, y: &Option<Altitude>) -> bool {
        match (x, y) {
            (None, None) => true,
            (Some(p), Some(q)) => p == q,
            _ => false,
        }
    }
    fn f_eq(x: &Option<f64>, y: &Option<f64>) -> bool {
        match (x, y) {
            (None, None) => true,
            (Some(p), Some(q)) => feq(*p, *q),
            _ => false,
        }
    }
    fn p_eq(x: &Option<cpr::Position>, y: &Option<cpr::Position>) -> bool {
        match (x, y) {
            (None, None) => true,
            (Some(p), Some(q)) => feq(p.latitude, q.latitude) && feq(p.longitude, q.longitude),
            _ => false,
        }
    }
    alt_eq(&a.altitudes[0], &b.altitudes[0]) && alt_eq(&a.altitudes[1], &b.altitudes[1]) && p_eq(&a.position, &b.position) && f_eq(&a.kilo_distance, &b.kilo_distance)
}

fn coor_is_default(a: &AirplaneCoor) -> bool {
    a.altitudes[0].is_none() && a.altitudes[1].is_none() && a.position.is_none() && a.kilo_distance.is_none()
}

fn reset_ghost() {
    unsafe {
        G_CALLS = 0;
        G_WRONG_KEY = false;
        GP_CALLS = 0;
        GP_ARGS = None;
        HV_CALLS = 0;
        CALC_CALLS = 0;
    }
}

fn mk_frame(df18: bool, key: ICAO, other: ICAO, me: ME) -> Frame {
    if df18 {
        Frame { df: DF::TisB { cf: ControlField::verif_new(key, me), pi: other }, crc: 0 }
    } else {
        Frame { df: DF::ADSB(ADSB { capability: Capability::AG_AIRBORNE, icao: key, me, pi: other }), crc: 0 }
    }
}

// ---------------------------------------------------------------------------------------------
// L0: contract of entry_or_insert at map level (concrete keys, light record contents)
// ---------------------------------------------------------------------------------------------
/// pre-state = subset `mask` of {A, B, C} (bit 0 = A ...), each with a distinguishable record;
/// `which` = the key asked for
pub fn obl_entry_or_insert(s: &mut Src, ctx: &mut Ctx, mask: u8, which: u8) {
    let keys = [KA, KB, KC];
    let mut a = Airplanes::new();
    let mut k = 0;
    while k < 3 {
        if (mask >> k) & 1 == 1 {
            let mut st = AirplaneState::default();
            st.num_messages = 100 + k as u32;
            a.0.insert(keys[k], st);
        }
        k += 1;
    }
    let key = keys[which as usize];
    let was_present = (mask >> which) & 1 == 1;
    let before = a.len();
    {
        let (rec, added) = a.entry_or_insert(key);
        vcheck!(ctx, (added == Added::Yes) == !was_present, "[C12] entry_or_insert reports Added exactly when the address was not tracked");
        vcheck!(ctx, rec.num_messages == if was_present { 100 + which as u32 } else { 0 }, "[C12] entry_or_insert returns the record stored under the address (a fresh default record when vacant)");
        rec.num_messages = 7777; // write through the returned reference
    }
    vcheck!(ctx, a.len() == before + if was_present { 0 } else { 1 }, "[C12] entry_or_insert grows the tracked set by at most the requested address");
    let mut k = 0;
    while k < 3 {
        let g = a.get(keys[k]);
        if k as u8 == which {
            vcheck!(ctx, matches!(g, Some(r) if r.num_messages == 7777), "[C12] the returned reference is the stored record of that address");
        } else if (mask >> k) & 1 == 1 {
            vcheck!(ctx, matches!(g, Some(r) if r.num_messages == 100 + k as u32), "[C12] entry_or_insert leaves every other record untouched");
        } else {
            vcheck!(ctx, g.is_none(), "[C12] entry_or_insert adds no other address");
        }
        k += 1;
    }
}

// ---------------------------------------------------------------------------------------------
// L1/L2: one step of `action` on a fully symbolic record
// ---------------------------------------------------------------------------------------------
fn setup_ghost(s: &mut Src, ctx: &mut Ctx, key: ICAO, track_some: bool) -> (AirplaneState, bool) {
    let vacant = s.bool();
    let st = if vacant { AirplaneState::default() } else { any_state(s, ctx, track_some) };
    let pre = st.clone();
    unsafe {
        G_KEY = key;
        G_VACANT = vacant;
        G_REC = Some(st);
    }
    reset_ghost();
    (pre, vacant)
}

fn common_post(ctx: &mut Ctx, r: &Added, pre: &AirplaneState, vacant: bool) {
    let (calls, wrong) = unsafe { (G_CALLS, G_WRONG_KEY) };
    vcheck!(ctx, !wrong, "[C12] an extended squitter (DF17) / TIS-B, ADS-R (DF18) frame is filed under its announced address and no other");
    vcheck!(ctx, calls >= 1, "[C12] every DF17 / DF18 frame touches the record of its address");
    vcheck!(ctx, (*r == Added::Yes) == vacant, "[C12] a frame is reported as added exactly when its address was not tracked before it");
    let post = unsafe { G_REC.as_ref().unwrap() };
    vcheck!(ctx, post.num_messages == pre.num_messages + 1, "[C12,C15] the message count grows by exactly one per DF17 / DF18 frame (the counted frames are the ones that refresh the last-heard time)");
}

/// position report (C12, C13, C14 invariant)
pub fn obl_action_position(s: &mut Src, ctx: &mut Ctx, df18: bool, track_some: bool, level: u8) {
    let (pre, vacant) = setup_ghost(s, ctx, KA, track_some);
    let odd = s.bool();
    let alt = any_alt(s, odd);
    let gnss = s.bool();
    let gp: Option<cpr::Position> = if s.bool() { Some(any_pos(s)) } else { None };
    let hv = [s.f64(), s.f64()];
    let rx = (s.f64(), s.f64());
    let range = s.f64();
    // input invariants: the range is a number, the distance function returns numbers
    vrequire!(ctx, range == range && hv[0] == hv[0] && hv[1] == hv[1]);
    unsafe {
        GP_RET = gp;
        HV_RET = hv;
    }
    let me = if gnss { ME::AirbornePositionGNSSAltitude(alt) } else { ME::AirbornePositionBaroAltitude(alt) };
    let frame = mk_frame(df18, KA, KB, me);
    let mut a = Airplanes::new();
    let r = a.action(frame, rx, range);
    common_post(ctx, &r, &pre, vacant);
    let post = unsafe { G_REC.as_ref().unwrap() };
    // slots after storing the report (explicit branches: no symbolic indexing)
    let slots: [Option<Altitude>; 2] = if odd { [pre.coords.altitudes[0], Some(alt)] } else { [Some(alt), pre.coords.altitudes[1]] };
    let both = slots[0].is_some() && slots[1].is_some();
    let (gpc, gpa, hvc, hva) = unsafe { (GP_CALLS, GP_ARGS, HV_CALLS, HV_ARGS) };
    let pc = &post.coords;
    vcover!(both && gp.is_some() && hv[0] <= range, "cover: a publication");
    vcover!(both && gp.is_none(), "cover: an inconsistent pair");
    // `level` is a concrete bit mask selecting clause groups (1 single-slot, 2 pairing / publication,
    // 4 invariant + untouched attributes, 8 track contents), so that each CBMC run stays small
    if !both {
        if level & 1 == 0 {
            return;
        }
        vcheck!(ctx, gpc == 0, "[C13] no pairing is attempted before an even and an odd report are stored");
        vcheck!(ctx, pc.altitudes[0] == slots[0] && pc.altitudes[1] == slots[1], "[C13] a position report is stored in the slot of its parity, the other slot is kept");
        vcheck!(ctx, coor_eq(&AirplaneCoor { altitudes: pc.altitudes, ..pre.coords }, pc), "[C13] with a single stored report the published position and distance are unchanged");
    } else {
        if level & 2 == 0 {
            return;
        }
        let (s0, s1) = (slots[0].unwrap(), slots[1].unwrap());
        vcheck!(ctx, gpc == 1 && matches!(gpa, Some((x, y)) if (x == s0 && y == s1) || (x == s1 && y == s0)), "[C13] the candidate position is one CPR pairing of exactly the most recent even and the most recent odd report");
        match gp {
            None => {
                vcheck!(ctx, pc.position.is_none() && pc.kilo_distance.is_none(), "[C13] when the pairing yields no position nothing is published (no position, no distance)");
            }
            Some(c) => {
                vcheck!(ctx, hvc >= 1 && hva[0].0 .0.to_bits() == rx.0.to_bits() && hva[0].0 .1.to_bits() == rx.1.to_bits() && hva[0].1 .0.to_bits() == c.latitude.to_bits() && hva[0].1 .1.to_bits() == c.longitude.to_bits(), "[C13] the range check measures receiver -> candidate position");
                if hv[0] > range {
                    vcheck!(ctx, coor_is_default(pc), "[C13] a candidate beyond the configured range clears the whole position record");
                } else if let Some(q) = pre.coords.position {
                    vcheck!(ctx, hvc == 2 && hva[1].0 .0.to_bits() == q.latitude.to_bits() && hva[1].0 .1.to_bits() == q.longitude.to_bits() && hva[1].1 .0.to_bits() == c.latitude.to_bits() && hva[1].1 .1.to_bits() == c.longitude.to_bits(), "[C13] the jump check measures previous published position -> candidate with the same distance function");
                    if hv[1] > 100.0 {
                        vcheck!(ctx, coor_is_default(pc), "[C13] a jump of more than 100 km clears the whole position record");
                    } else {
                        vcheck!(ctx, matches!(pc.position, Some(x) if feq(x.latitude, c.latitude) && feq(x.longitude, c.longitude)), "[C13] a plausible candidate is published as the position");
                        vcheck!(ctx, matches!(pc.kilo_distance, Some(d) if feq(d, hv[0])), "[C13] the reported distance is the receiver -> published position distance");
                        vcheck!(ctx, pc.altitudes[0] == Some(s0) && pc.altitudes[1] == Some(s1), "[C13] the paired reports stay stored");
                    }
                } else {
                    vcheck!(ctx, hvc == 1, "[C13] without a previous position only the range is checked");
                    vcheck!(ctx, matches!(pc.position, Some(x) if feq(x.latitude, c.latitude) && feq(x.longitude, c.longitude)), "[C13] a plausible candidate is published as the position");
                    vcheck!(ctx, matches!(pc.kilo_distance, Some(d) if feq(d, hv[0])), "[C13] the reported distance is the receiver -> published position distance");
                    vcheck!(ctx, pc.altitudes[0] == Some(s0) && pc.altitudes[1] == Some(s1), "[C13] the paired reports stay stored");
                }
            }
        }
    }
    if level & 12 == 0 {
        return;
    }
    // representation invariant (C14): preserved by the step
    let inv_pre = pre.coords.kilo_distance.is_some() == pre.coords.position.is_some() && (pre.coords.position.is_none() || (pre.coords.altitudes[0].is_some() && pre.coords.altitudes[1].is_some()));
    if inv_pre {
        vcheck!(ctx, pc.kilo_distance.is_some() == pc.position.is_some(), "[C14] a distance is present exactly when a position is");
        vcheck!(ctx, pc.position.is_none() || (pc.altitudes[0].is_some() && pc.altitudes[1].is_some()), "[C14] a published position always has both paired reports stored");
    }
    // track (C14): unchanged or extended by exactly the superseded record
    let tl_pre = pre.track.as_ref().map_or(0, |t| t.len());
    let tl_post = post.track.as_ref().map_or(0, |t| t.len());
    vcheck!(ctx, tl_post == tl_pre || tl_post == tl_pre + 1, "[C14] a position report extends the track by at most one entry");
    if level & 8 != 0 && tl_pre == 0 && tl_post == 1 {
        if let Some(t) = post.track.as_ref() {
            let last = t[0];
            vcheck!(ctx, coor_eq(&last, &pre.coords), "[C14] the entry appended to the track is the superseded record (its position is the previously published one)");
        }
    }
    // everything else untouched
    vcheck!(ctx, post.callsign == pre.callsign && post.vert_speed == pre.vert_speed && post.squawk == pre.squawk && post.on_ground == pre.on_ground, "[C14] a position report changes neither callsign nor velocity attributes");
}

/// identification report (C12, C14)
pub fn obl_action_ident(s: &mut Src, ctx: &mut Ctx, df18: bool, had_callsign: bool) {
    let (mut pre, vacant) = setup_ghost(s, ctx, KA, false);
    if had_callsign {
        // the record already carries a callsign from an earlier report (latest must win)
        vrequire!(ctx, !vacant);
        unsafe {
            G_REC.as_mut().unwrap().callsign = Some(String::from("OLD"));
        }
        pre.callsign = Some(String::from("OLD"));
    }
    let id = Identification { tc: adsb_deku::adsb::TypeCoding::A, ca: s.u8() & 7, cn: String::from("NEW1") };
    let frame = mk_frame(df18, KA, KB, ME::AircraftIdentification(id));
    let mut a = Airplanes::new();
    let r = a.action(frame, (s.f64(), s.f64()), s.f64());
    common_post(ctx, &r, &pre, vacant);
    let post = unsafe { G_REC.as_ref().unwrap() };
    vcheck!(ctx, matches!(&post.callsign, Some(c) if c.as_bytes() == b"NEW1"), "[C14] the callsign is that of the most recent identification report");
    vcheck!(ctx, coor_eq(&post.coords, &pre.coords) && post.vert_speed == pre.vert_speed && post.track.as_ref().map_or(0, |t| t.len()) == pre.track.as_ref().map_or(0, |t| t.len()), "[C14] an identification report changes nothing but the callsign and the message count");
}

/// velocity report (C12, C14); `calculate` is a ghost function
pub fn obl_action_velocity(s: &mut Src, ctx: &mut Ctx, df18: bool) {
    let (pre, vacant) = setup_ghost(s, ctx, KA, false);
    let calc: Option<(f32, f64, i16)> = if s.bool() { Some((s.f64() as f32, s.f64(), s.u16() as i16)) } else { None };
    unsafe {
        CALC_RET = calc;
    }
    let v = AirborneVelocity {
        st: 1,
        nac_v: 0,
        sub_type: AirborneVelocitySubType::GroundSpeedDecoding(GroundSpeedDecoding { ew_sign: Sign::Positive, ew_vel: 10, ns_sign: Sign::Positive, ns_vel: 10 }),
        vrate_src: VerticalRateSource::BarometricPressureAltitude,
        vrate_sign: Sign::Positive,
        vrate_value: 5,
        reverved: 0,
        gnss_sign: Sign::Positive,
        gnss_baro_diff: 0,
    };
    let frame = mk_frame(df18, KA, KB, ME::AirborneVelocity(v));
    let mut a = Airplanes::new();
    let r = a.action(frame, (s.f64(), s.f64()), s.f64());
    common_post(ctx, &r, &pre, vacant);
    let post = unsafe { G_REC.as_ref().unwrap() };
    let calls = unsafe { CALC_CALLS };
    match calc {
        Some((h, g, vs)) => {
            vcheck!(ctx, matches!(post.heading, Some(x) if x.to_bits() == h.to_bits()), "[C14] heading is that of the most recent velocity report that carried one");
            vcheck!(ctx, matches!(post.speed, Some(x) if x.to_bits() == (g as f32).to_bits()), "[C14] ground speed is that of the most recent velocity report that carried one");
            vcheck!(ctx, post.vert_speed == Some(vs), "[C14] vertical rate is that of the most recent velocity report that carried one");
        }
        None => {
            vcheck!(ctx, post.heading.map(|x| x.to_bits()) == pre.heading.map(|x| x.to_bits()) && post.speed.map(|x| x.to_bits()) == pre.speed.map(|x| x.to_bits()) && post.vert_speed == pre.vert_speed, "[C14] a velocity report without derived velocity leaves heading, speed and vertical rate unchanged");
        }
    }
    vcheck!(ctx, calls == 1, "[C14] the velocity attributes come from the report's own derived velocity");
    vcheck!(ctx, coor_eq(&post.coords, &pre.coords) && post.callsign == pre.callsign, "[C14] a velocity report changes neither position nor callsign");
}

/// any other ME type in DF17/DF18: only the count changes
pub fn obl_action_other_me(s: &mut Src, ctx: &mut Ctx, df18: bool, which: u8) {
    let (pre, vacant) = setup_ghost(s, ctx, KA, false);
    let mut d = [0u8; 6];
    s.fill(&mut d);
    // the payload kind is a concrete parameter (a symbolic enum variant makes CBMC walk every drop glue)
    let me = if which == 0 { ME::NoPosition(d) } else if which == 1 { ME::AircraftOperationalCoordination(d) } else { ME::SurfaceSystemStatus(d) };
    let frame = mk_frame(df18, KA, KB, me);
    let mut a = Airplanes::new();
    let r = a.action(frame, (s.f64(), s.f64()), s.f64());
    common_post(ctx, &r, &pre, vacant);
    let post = unsafe { G_REC.as_ref().unwrap() };
    vcheck!(ctx, coor_eq(&post.coords, &pre.coords) && post.callsign == pre.callsign && post.vert_speed == pre.vert_speed, "[C12] other payload types change nothing but the message count");
}

/// frames of other downlink formats change nothing (the map is never touched)
pub fn obl_action_non_es(s: &mut Src, ctx: &mut Ctx, which: u8) {
    let (pre, vacant) = setup_ghost(s, ctx, KA, false);
    let frame = match which {
        0 => Frame { df: DF::AllCallReply { capability: Capability::AG_AIRBORNE, icao: KA, p_icao: KA }, crc: s.u32() },
        1 => Frame { df: DF::ExtendedQuitterMilitaryApplication { af: s.u8() & 7 }, crc: s.u32() },
        2 => Frame { df: DF::ModeSExtendedSquitter { df: 24, capability: Capability::AG_AIRBORNE, icao: KA, type_code: s.u8() & 0x1f, adsb_data: s.u64(), parity: KA }, crc: s.u32() },
        _ => Frame { df: DF::SurveillanceIdentityReply { fs: adsb_deku::FlightStatus::NoAlertNoSPIAirborne, dr: adsb_deku::DownlinkRequest::None, um: adsb_deku::UtilityMessage { iis: 0, ids: adsb_deku::UtilityMessageType::NoInformation }, id: adsb_deku::IdentityCode(s.u16()), ap: KA }, crc: s.u32() },
    };
    let mut a = Airplanes::new();
    let r = a.action(frame, (s.f64(), s.f64()), s.f64());
    let calls = unsafe { G_CALLS };
    vcheck!(ctx, r == Added::No && calls == 0 && a.len() == 0, "[C12] frames of other downlink formats change nothing and are never reported as added");
}

// ---------------------------------------------------------------------------------------------
// derived views
// ---------------------------------------------------------------------------------------------
/// aircraft_details on a fully symbolic record (`get` replaced by the ghost map)
pub fn obl_details(s: &mut Src, ctx: &mut Ctx) {
    let (pre, vacant) = setup_ghost(s, ctx, KA, false);
    let a = Airplanes::new();
    let d = a.aircraft_details(KA);
    let alt = pre.coords.altitude();
    let expect = !vacant && pre.coords.position.is_some() && alt.is_some() && pre.coords.kilo_distance.is_some();
    vcheck!(ctx, d.is_some() == expect, "[C14] details are available exactly for aircraft with a position, an altitude and a distance");
    vcheck!(ctx, alt.is_none() || alt == pre.coords.altitudes[0].and_then(|x| x.alt) || alt == pre.coords.altitudes[1].and_then(|x| x.alt), "[C14] the altitude is that of one of the currently stored position reports");
    if let Some(d) = d {
        vcheck!(ctx, matches!(pre.coords.position, Some(p) if p.latitude.to_bits() == d.position.latitude.to_bits() && p.longitude.to_bits() == d.position.longitude.to_bits()) && Some(d.altitude) == alt && d.kilo_distance.to_bits() == pre.coords.kilo_distance.unwrap().to_bits(), "[C14] details repeat the record's own position, altitude and distance");
    }
    let other = a.aircraft_details(KB);
    vcheck!(ctx, other.is_none(), "[C14] no details for an address that is not tracked");
}

/// all_position at map level (bounded: three concrete addresses, light contents)
pub fn obl_all_position(s: &mut Src, ctx: &mut Ctx, mask: u8, posmask: u8) {
    let keys = [KB, KA, KC]; // ascending key order: 40.., aa.., ff..
    let mut a = Airplanes::new();
    let mut k = 0;
    while k < 3 {
        if (mask >> k) & 1 == 1 {
            let mut st = AirplaneState::default();
            if (posmask >> k) & 1 == 1 {
                st.coords.position = Some(cpr::Position { latitude: 10.0 + k as f64, longitude: 20.0 });
            }
            a.0.insert(keys[k], st);
        }
        k += 1;
    }
    let v = a.all_position();
    let mut exp = 0;
    let mut k = 0;
    let mut ok = true;
    while k < 3 {
        if (mask >> k) & 1 == 1 && (posmask >> k) & 1 == 1 {
            if exp >= v.len() || v[exp].0 != keys[k] || v[exp].1.latitude != 10.0 + k as f64 {
                ok = false;
            }
            exp += 1;
        }
        k += 1;
    }
    vcheck!(ctx, ok && v.len() == exp, "[C14] the position list holds exactly the aircraft with a position, in address order");
}

// ---------------------------------------------------------------------------------------------
// C15 (std build): expiry with a ghost clock
// ---------------------------------------------------------------------------------------------
#[cfg(feature = "std")]
pub static mut CLOCK_MS: u64 = 0;

#[cfg(feature = "std")]
pub fn now_stub() -> std::time::SystemTime {
    unsafe { std::time::UNIX_EPOCH + std::time::Duration::from_millis(CLOCK_MS) }
}

/// incr_messages refreshes last_time (record level)
#[cfg(feature = "std")]
pub fn obl_incr_time(s: &mut Src, ctx: &mut Ctx) {
    let now = s.u32() as u64;
    unsafe {
        CLOCK_MS = now * 1000;
    }
    let (pre, vacant) = setup_ghost(s, ctx, KA, false);
    let mut a = Airplanes::new();
    let r = a.incr_messages(KA);
    let post = unsafe { G_REC.as_ref().unwrap() };
    vcheck!(ctx, post.last_time == std::time::UNIX_EPOCH + std::time::Duration::from_secs(now), "[C15] every counted frame refreshes the last-heard time");
    vcheck!(ctx, post.num_messages == pre.num_messages + 1 && (r == Added::Yes) == vacant, "[C12] incr_messages counts the frame and reports vacancy");
}

/// prune at map level: bounded (one tracked aircraft + an empty map), clock / last-heard in
/// MILLISECONDS and threshold in seconds are concrete parameters enumerated by the driver around
/// the boundary (exactly T, just below, just above, across a whole-second boundary, clock gone
/// backwards)
#[cfg(feature = "std")]
pub fn obl_prune(s: &mut Src, ctx: &mut Ctx, now_ms: u64, last_ms: u64, thr: u64) {
    unsafe {
        CLOCK_MS = now_ms;
    }
    let mut a = Airplanes::new();
    let mut st = AirplaneState::default();
    st.num_messages = 100;
    st.last_time = std::time::UNIX_EPOCH + std::time::Duration::from_millis(last_ms);
    a.0.insert(KA, st);
    a.prune(thr);
    // removed exactly when heard thr or more seconds ago; a clock that went backwards removes
    let keep = last_ms <= now_ms && now_ms - last_ms < thr * 1000;
    let g = a.get(KA);
    if keep {
        vcheck!(ctx, matches!(g, Some(r) if r.num_messages == 100), "[C15] an aircraft heard less than T seconds ago is kept, untouched");
        vcheck!(ctx, a.len() == 1, "[C15] expiry removes nothing else and adds nothing");
    } else {
        vcheck!(ctx, g.is_none() && a.len() == 0, "[C15] an aircraft last heard T or more seconds ago is removed");
    }
}

/// C15, BOUNDED native stand-in (real clock, real map; CBMC runs out of memory on BTreeMap::retain
/// even for one record): last-heard refresh, expiry boundary at six clock phases, re-appearance.
#[cfg(all(feature = "std", not(kani)))]
pub fn obl_c15_native(s: &mut Src, ctx: &mut Ctx) {
    use std::time::{Duration, SystemTime};
    // last-heard time is refreshed by every counted frame
    let mut a = Airplanes::new();
    let before = SystemTime::now();
    let r = a.incr_messages(KA);
    let after = SystemTime::now();
    let lt = a.get(KA).map(|x| x.last_time);
    vcheck!(ctx, matches!(lt, Some(t) if t >= before && t <= after) && r == Added::Yes, "[C15] every counted frame refreshes the last-heard time");
    let me = ME::NoPosition([0u8; 6]);
    let f = mk_frame(false, KB, KA, me);
    let before = SystemTime::now();
    let r = a.action(f, (0.0, 0.0), 500.0);
    let after = SystemTime::now();
    let lt = a.get(KB).map(|x| x.last_time);
    vcheck!(ctx, matches!(lt, Some(t) if t >= before && t <= after) && r == Added::Yes, "[C15] every counted frame refreshes the last-heard time");
    // expiry boundary, at six phases of the wall-clock second
    let mut phase = 0;
    while phase < 6 {
        let now = SystemTime::now();
        let mut m = Airplanes::new();
        let mk = |age_ms: i64, n: u32| {
            let mut st = AirplaneState::default();
            st.num_messages = n;
            st.last_time = if age_ms >= 0 { now - Duration::from_millis(age_ms as u64) } else { now + Duration::from_millis((-age_ms) as u64) };
            st
        };
        m.0.insert(KA, mk(500, 1)); // heard 0.5 s ago: kept with T = 1
        m.0.insert(KB, mk(1500, 2)); // heard 1.5 s ago: removed with T = 1
        m.0.insert(KC, mk(-10_000, 3)); // clock went backwards: removed
        m.prune(1);
        vcheck!(ctx, matches!(m.get(KA), Some(x) if x.num_messages == 1), "[C15] an aircraft heard less than T seconds ago is kept, untouched");
        vcheck!(ctx, m.get(KB).is_none() && m.get(KC).is_none(), "[C15] an aircraft last heard T or more seconds ago is removed");
        vcheck!(ctx, m.len() == 1, "[C15] expiry removes nothing else and adds nothing");
        // an expired aircraft that is heard again is newly added and starts from an empty record
        let f = mk_frame(false, KB, KA, ME::NoPosition([0u8; 6]));
        let r = m.action(f, (0.0, 0.0), 500.0);
        vcheck!(ctx, r == Added::Yes && matches!(m.get(KB), Some(x) if x.num_messages == 1 && x.callsign.is_none() && x.coords.position.is_none()), "[C15] an expired aircraft heard again is reported as newly added and starts from an empty record");
        let mut z = Airplanes::new();
        z.0.insert(KA, mk(0, 9));
        z.prune(0);
        vcheck!(ctx, z.len() == 0, "[C15] threshold 0 removes every aircraft (heard 0 or more seconds ago)");
        std::thread::sleep(Duration::from_millis(170));
        phase += 1;
    }
}
#[cfg(not(all(feature = "std", not(kani))))]
pub fn obl_c15_native(s: &mut Src, ctx: &mut Ctx) {}
