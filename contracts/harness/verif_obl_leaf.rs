//! Leaf contracts (engine E-K): the real leaf functions of adsb_deku against the spec functions,
//! over their full input domain.  Each `obl_*` function is one contract: `vrequire!` lines are its
//! preconditions, `vcheck!` lines its postconditions (one named obligation each).
#![allow(dead_code, unused_imports, unused_variables, unused_mut, clippy::all)]

use crate::verif_spec::*;
use crate::verif_support::*;
use crate::*;
use deku::no_std_io::Cursor;
use deku::prelude::*;

/// C09/C06: the shared 13-bit de-interleaver, all u32 inputs
pub fn obl_decode_id13(s: &mut Src, ctx: &mut Ctx) {
    let x = s.u32();
    let r = mode_ac::decode_id13_field(x);
    vnote!(ctx, "decode_id13_field({:#x}) = {:#06x}, squawk_spec = {:#06x}", x, r, squawk_spec(x & 0x1fff));
    vcheck!(ctx, r == squawk_spec(x & 0x1fff), "[C09,C06] decode_id13_field(x) == squawk_spec(x & 0x1fff)");
    vcheck!(ctx, r & 0xffff_8888 == 0, "[C09,C06] every digit of decode_id13_field is in 0..=7");
}

/// C06: Gillham decoder against the Gray-code spec, all 13-bit codes (through the de-interleaver)
/// and panic-freedom for every u32 (C01, Kani default checks)
pub fn obl_mode_a_to_mode_c(s: &mut Src, ctx: &mut Ctx) {
    let raw = s.u32();
    let _ = mode_ac::mode_a_to_mode_c(raw); // C01: total on every u32
    let x = raw & 0x1fff;
    let r = mode_ac::mode_a_to_mode_c(mode_ac::decode_id13_field(x));
    let sp = gillham_ft(x);
    vnote!(ctx, "code {:#06x}: mode_a_to_mode_c = {:?}, gillham_ft = {:?}", x, r, sp);
    match (r, sp) {
        (Ok(n), Some(a)) => {
            vcheck!(ctx, a >= 0 && (n as i64) * 100 == a as i64, "[C06] mode_a_to_mode_c: Ok(n) => 100*n == Gillham altitude");
        }
        (Err(_), Some(a)) => {
            vcheck!(ctx, a < 0, "[C06] mode_a_to_mode_c: Err only for illegal or negative codes");
        }
        (Ok(_), None) => {
            vcheck!(ctx, false, "[C06] mode_a_to_mode_c: illegal Gillham pattern must be Err");
        }
        (Err(_), None) => {}
    }
    vcover!(r.is_ok(), "cover: some legal Gillham code");
    vcover!(r.is_err(), "cover: some illegal Gillham code");
}

/// C06: 13-bit altitude reader (slice: reader positioned at bit 3 of a 2-byte buffer)
pub fn obl_ac13_read(s: &mut Src, ctx: &mut Ctx) {
    let mut buf = [0u8; 2];
    s.fill(&mut buf);
    let mut c = Cursor::new(&buf[..]);
    let mut r = Reader::new(&mut c);
    let _ = r.skip_bits(3);
    let got = AC13Field::read(&mut r);
    let code = bits(&buf, 4, 13) as u32;
    vnote!(ctx, "code {:#06x}: AC13Field::read = {:?}, ac13_spec = {}", code, got, ac13_spec(code));
    match got {
        Ok(v) => {
            vcheck!(ctx, v == ac13_spec(code), "[C06] AC13Field::read(code) == ac13_spec(code)");
        }
        Err(_) => {
            vcheck!(ctx, false, "[C06] AC13Field::read never fails on 13 available bits");
        }
    }
    vcheck!(ctx, r.bits_read == 16, "[C06] AC13Field::read consumes exactly 13 bits");
    vcover!(code & 0x50 == 0 && ac13_spec(code) != 0, "cover: Gillham altitude");
    vcover!(code & 0x10 != 0 && ac13_spec(code) != 0, "cover: 25 ft altitude");
}

/// C06: 12-bit altitude reader (slice: reader positioned at bit 4 of a 2-byte buffer)
pub fn obl_ac12_read(s: &mut Src, ctx: &mut Ctx) {
    let mut buf = [0u8; 2];
    s.fill(&mut buf);
    let mut c = Cursor::new(&buf[..]);
    let mut r = Reader::new(&mut c);
    let _ = r.skip_bits(4);
    let got = Altitude::read(&mut r);
    let code = bits(&buf, 5, 12) as u32;
    vnote!(ctx, "code {:#05x}: Altitude::read = {:?}, ac12_spec = {:?}", code, got, ac12_spec(code));
    match got {
        Ok(v) => {
            vcheck!(ctx, ac12_agrees(code, v), "[C06] Altitude::read(code) == ac12_spec(code)");
        }
        Err(_) => {
            vcheck!(ctx, false, "[C06] Altitude::read never fails on 12 available bits");
        }
    }
    vcheck!(ctx, r.bits_read == 16, "[C06] Altitude::read consumes exactly 12 bits");
    vcover!(code & 0x10 == 0 && ac12_spec(code).is_some(), "cover: Gillham altitude");
}

/// C09: DF5 identity reader (slice)
pub fn obl_identity_read(s: &mut Src, ctx: &mut Ctx) {
    let mut buf = [0u8; 2];
    s.fill(&mut buf);
    let mut c = Cursor::new(&buf[..]);
    let mut r = Reader::new(&mut c);
    let _ = r.skip_bits(3);
    let got = IdentityCode::read(&mut r);
    let code = bits(&buf, 4, 13) as u32;
    vnote!(ctx, "code {:#06x}: IdentityCode::read = {:x?}, squawk_spec = {:#06x}", code, got, squawk_spec(code));
    match got {
        Ok(v) => {
            vcheck!(ctx, v as u32 == squawk_spec(code), "[C09] IdentityCode::read(code) == squawk_spec(code)");
            vcheck!(ctx, v as u32 == mode_ac::decode_id13_field(code), "[C09] IdentityCode::read agrees with decode_id13_field (carriers agree)");
        }
        Err(_) => {
            vcheck!(ctx, false, "[C09] IdentityCode::read never fails on 13 available bits");
        }
    }
    vcheck!(ctx, r.bits_read == 16, "[C09] IdentityCode::read consumes exactly 13 bits");
}

/// C08: the character loop and table (slice: 48 bits at the start of a 6-byte buffer).
/// `sym_mask` bit k set = character k (0 = first) is symbolic (all 64 codes); the other
/// characters are the concrete 6-bit codes of `filler` (8 codes packed 6 bits each, first char in
/// the most significant position).  sym_mask = 0xff is the full domain 64^8.
pub fn obl_ident_read(s: &mut Src, ctx: &mut Ctx, sym_mask: u8, filler: u64) {
    let mut packed: u64 = 0;
    let mut k = 0;
    while k < 8 {
        let c: u64 = if (sym_mask >> k) & 1 == 1 { (s.u8() & 0x3f) as u64 } else { (filler >> (42 - 6 * k)) & 0x3f };
        packed = (packed << 6) | c;
        k += 1;
    }
    let mut buf = [0u8; 6];
    let mut i = 0;
    while i < 6 {
        buf[i] = (packed >> (40 - 8 * i)) as u8;
        i += 1;
    }
    let mut c = Cursor::new(&buf[..]);
    let mut r = Reader::new(&mut c);
    let got = aircraft_identification_read(&mut r);
    let (exp, n) = ident_spec(&buf, 1);
    vnote!(ctx, "bytes {:02x?}: read = {:?}, spec = {:?}", buf, got, core::str::from_utf8(&exp[..n]));
    match got {
        Ok(st) => {
            let by = st.as_bytes();
            vcheck!(ctx, by.len() == n, "[C08] identification: number of characters after removing space padding");
            // reading the contents of a String of symbolic length exhausts CBMC (measured: OOM);
            // the character comparison is evaluated natively (replay / sweeps) only
            #[cfg(not(kani))]
            {
                vcheck!(ctx, by == &exp[..n], "[C08] identification: every character equals the Annex 10 character set, in order");
            }
        }
        Err(_) => {
            vcheck!(ctx, false, "[C08] identification reader never fails on 48 available bits");
        }
    }
    vcheck!(ctx, r.bits_read == 48, "[C08] identification reader consumes exactly 48 bits");
}

/// C08: the 64-entry table itself
pub fn obl_char_lookup(s: &mut Src, ctx: &mut Ctx) {
    let c = s.u8() & 0x3f;
    vnote!(ctx, "CHAR_LOOKUP[{}] = {:?}, charset = {:?}", c, CHAR_LOOKUP[c as usize] as char, charset(c) as char);
    vcheck!(ctx, CHAR_LOOKUP[c as usize] == charset(c), "[C08] CHAR_LOOKUP[c] == Annex 10 charset(c)");
}

/// C07: Sign::value
pub fn obl_sign_value(s: &mut Src, ctx: &mut Ctx) {
    let neg = s.bool();
    let sg = if neg { Sign::Negative } else { Sign::Positive };
    vcheck!(ctx, sg.value() == if neg { -1 } else { 1 }, "[C07] Sign::value: +1 for 0, -1 for 1");
}

/// C03 (native search / replay only; the proof is Verus'): modes_checksum against the bit-serial
/// polynomial division.  Input: length byte n, then n message bytes.
pub fn obl_crc_native(s: &mut Src, ctx: &mut Ctx) {
    let n = (s.u8() as usize) % 29;
    let extra = (s.u8() as usize) % 5; // bytes after the n bytes the checksum is asked for
    let mut m = [0u8; 33];
    s.fill(&mut m[..n + extra]);
    let r = crc::modes_checksum(&m[..n + extra], n * 8);
    if n < 3 {
        vcheck!(ctx, r.is_err(), "[C03] checksum of fewer than 3 bytes is refused");
    } else {
        let sp = syndrome(&m[..n], n);
        vnote!(ctx, "message {:02x?} (+{} trailing bytes): modes_checksum = {:x?}, syndrome spec = {:06x}", &m[..n], extra, r, sp);
        vcheck!(ctx, matches!(r, Ok(v) if v == sp), "[C03] modes_checksum == remainder modulo 0x1FFF409 xor last 24 bits");
    }
}

/// C08, slice 1 (mechanically extracted character loop of aircraft_identification_read): the
/// collected codes are exactly the non-space 6-bit characters of the 48 bits, in order
#[cfg(kani)]
pub fn obl_ident_loop(s: &mut Src, ctx: &mut Ctx) {
    let mut buf = [0u8; 6];
    s.fill(&mut buf);
    let mut c = Cursor::new(&buf[..]);
    let mut r = Reader::new(&mut c);
    let got = verif_ident_loop(&mut r);
    let mut exp = [0u8; 8];
    let mut n = 0;
    let mut k = 0;
    while k < 8 {
        let code = bits(&buf, 1 + 6 * k, 6) as u8;
        if code != 32 {
            exp[n] = code;
            n += 1;
        }
        k += 1;
    }
    match got {
        Ok(v) => {
            vcheck!(ctx, v.len() == n, "[C08] identification loop: one code per non-space character of the eight 6-bit characters");
            let mut same = true;
            let mut k = 0;
            while k < 8 {
                if k < n && k < v.len() && v[k] != exp[k] {
                    same = false;
                }
                k += 1;
            }
            vcheck!(ctx, same, "[C08] identification loop: the codes are the message's characters, in order");
        }
        Err(_) => {
            vcheck!(ctx, false, "[C08] identification loop never fails on 48 available bits");
        }
    }
    vcheck!(ctx, r.bits_read == 48, "[C08] identification loop consumes exactly 48 bits");
}
#[cfg(not(kani))]
pub fn obl_ident_loop(s: &mut Src, ctx: &mut Ctx) {}

/// C08, slice 2 (mechanically extracted String statement): `len` codes (concrete length), the
/// code at position `pos` symbolic (all 64 values), the others 'A' (code 1): the String is the
/// Annex 10 character of each code, in order.  (All codes symbolic at once exhausts CBMC: the UTF-8
/// width of every character becomes symbolic; that map/collect works element by element is std's.)
#[cfg(kani)]
pub fn obl_ident_tail(s: &mut Src, ctx: &mut Ctx, len: usize, pos: usize) {
    let mut v: Vec<u8> = Vec::new();
    let mut exp = [0u8; 8];
    let mut k = 0;
    while k < len {
        let c = if k == pos { s.u8() & 0x3f } else { 1 };
        v.push(c);
        exp[k] = charset(c);
        k += 1;
    }
    let st = verif_ident_tail(v);
    let by = st.as_bytes();
    vcheck!(ctx, by.len() == len, "[C08] identification: one output character per code");
    let mut same = by.len() == len;
    let mut k = 0;
    while k < len {
        if same && by[k] != exp[k] {
            same = false;
        }
        k += 1;
    }
    vcheck!(ctx, same, "[C08] identification: every character equals the Annex 10 character set, in order");
}
#[cfg(not(kani))]
pub fn obl_ident_tail(s: &mut Src, ctx: &mut Ctx, len: usize, pos: usize) {}

/// C04: textual form of an address.  Under Kani the FromStr half: parsing the six lower-case hex
/// digits of any address gives that address back (Display goes through core::fmt, which is stubbed
/// out under CBMC); natively also the Display half and the full round trip.
pub fn obl_icao_text(s: &mut Src, ctx: &mut Ctx) {
    let a = [s.u8(), s.u8(), s.u8()];
    let hexd = |n: u8| if n < 10 { b'0' + n } else { b'a' + (n - 10) };
    let txt = [hexd(a[0] >> 4), hexd(a[0] & 15), hexd(a[1] >> 4), hexd(a[1] & 15), hexd(a[2] >> 4), hexd(a[2] & 15)];
    let st = match core::str::from_utf8(&txt) {
        Ok(x) => x,
        Err(_) => {
            vcheck!(ctx, false, "[C04] six hex digits are valid text");
            return;
        }
    };
    let parsed = <ICAO as core::str::FromStr>::from_str(st);
    vnote!(ctx, "address {:02x?}: text {:?} parses to {:?}", a, st, parsed);
    vcheck!(ctx, matches!(parsed, Ok(ICAO(p)) if p == a), "[C04] the six lower-case hex digits of an address parse back to the same address");
    #[cfg(not(kani))]
    {
        let shown = alloc::format!("{}", ICAO(a));
        vcheck!(ctx, shown.as_bytes() == &txt[..], "[C04] the textual form of an address is its six lower-case hex digits");
    }
}
