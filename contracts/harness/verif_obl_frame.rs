//! Frame-level and payload-level contracts (engine E-F): the real public entry points
//! (`Frame::from_bytes`, `DF::from_reader_with_ctx`, `ME::from_reader_with_ctx`,
//! `BDS::from_reader_with_ctx`: real derive expansion + real hand-written readers) against
//! `verif_spec`, field by field.  The bytes that select a heavy enum arm (byte 0, and byte 4 for
//! extended squitters / Comm-B) are concrete parameters enumerated by the driver; every other bit
//! of the buffer is symbolic.
#![allow(dead_code, unused_imports, unused_variables, unused_mut, clippy::all)]

use crate::adsb::*;
use crate::bds::*;
use crate::verif_spec::*;
use crate::verif_support::*;
use crate::*;
use deku::no_std_io::Cursor;
use deku::prelude::*;

fn icao_u32(i: &ICAO) -> u64 {
    ((i.0[0] as u64) << 16) | ((i.0[1] as u64) << 8) | (i.0[2] as u64)
}

fn cap_id(c: &Capability) -> u64 {
    match c {
        Capability::AG_UNCERTAIN => 0,
        Capability::Reserved(v) => *v as u64,
        Capability::AG_GROUND => 4,
        Capability::AG_AIRBORNE => 5,
        Capability::AG_UNCERTAIN2 => 6,
        Capability::AG_UNCERTAIN3 => 7,
    }
}

fn cap_variant_ok(c: &Capability, bits3: u64) -> bool {
    match c {
        Capability::AG_UNCERTAIN => bits3 == 0,
        Capability::Reserved(_) => bits3 >= 1 && bits3 <= 3,
        Capability::AG_GROUND => bits3 == 4,
        Capability::AG_AIRBORNE => bits3 == 5,
        Capability::AG_UNCERTAIN2 => bits3 == 6,
        Capability::AG_UNCERTAIN3 => bits3 == 7,
    }
}

fn dr_id(d: &DownlinkRequest) -> u64 {
    match d {
        DownlinkRequest::None => 0,
        DownlinkRequest::RequestSendCommB => 1,
        DownlinkRequest::CommBBroadcastMsg1 => 4,
        DownlinkRequest::CommBBroadcastMsg2 => 5,
        DownlinkRequest::Unknown(v) => *v as u64,
    }
}

fn dr_variant_ok(d: &DownlinkRequest, v: u64) -> bool {
    match d {
        DownlinkRequest::None => v == 0,
        DownlinkRequest::RequestSendCommB => v == 1,
        DownlinkRequest::CommBBroadcastMsg1 => v == 4,
        DownlinkRequest::CommBBroadcastMsg2 => v == 5,
        DownlinkRequest::Unknown(_) => !(v == 0 || v == 1 || v == 4 || v == 5),
    }
}

/// FS / DR / UM header of DF4, 5, 20, 21 (Annex 10: FS 6-8, DR 9-13, IIS 14-17, IDS 18-19)
fn cmp_surv_header(ctx: &mut Ctx, b: &[u8], fs: &FlightStatus, dr: &DownlinkRequest, um: &UtilityMessage) {
    vcheck!(ctx, *fs as u64 == bits(b, 6, 3), "[C04] FS flight status == frame bits 6-8");
    vcheck!(ctx, dr_id(dr) == bits(b, 9, 5) && dr_variant_ok(dr, bits(b, 9, 5)), "[C04] DR downlink request == frame bits 9-13");
    vcheck!(ctx, um.iis as u64 == bits(b, 14, 4), "[C04] UM interrogator identifier == frame bits 14-17");
    vcheck!(ctx, um.ids as u64 == bits(b, 18, 2), "[C04] UM identifier designator == frame bits 18-19");
}

/// ME payload (frame bits 33-88) against DO-260B / ICAO 9871
pub fn cmp_me(ctx: &mut Ctx, b: &[u8], m: &ME) {
    let tc = me(b, 1, 5);
    vnote!(ctx, "ME type code {} payload {:?}", tc, m);
    match m {
        ME::AirbornePositionBaroAltitude(a) | ME::AirbornePositionGNSSAltitude(a) => {
            let baro = matches!(m, ME::AirbornePositionBaroAltitude(_));
            vcheck!(ctx, if baro { tc >= 9 && tc <= 18 } else { tc >= 20 && tc <= 22 }, "[C10] type code selects the airborne position variant (9-18 baro, 20-22 GNSS)");
            vcheck!(ctx, a.tc as u64 == tc, "[C10] airborne position: tc == ME bits 1-5");
            vcheck!(ctx, a.ss as u64 == me(b, 6, 2), "[C10] airborne position: surveillance status == ME bits 6-7");
            vcheck!(ctx, a.saf_or_imf as u64 == me(b, 8, 1), "[C10] airborne position: antenna/IMF flag == ME bit 8");
            vcheck!(ctx, ac12_agrees(me(b, 9, 12) as u32, a.alt), "[C06] airborne position: altitude == ac12_spec(ME bits 9-20)");
            vcheck!(ctx, a.t as u64 == me(b, 21, 1), "[C10] airborne position: time bit == ME bit 21");
            vcheck!(ctx, a.odd_flag as u64 == me(b, 22, 1), "[C10] airborne position: CPR format == ME bit 22");
            vcheck!(ctx, a.lat_cpr as u64 == me(b, 23, 17), "[C10] airborne position: lat_cpr == ME bits 23-39");
            vcheck!(ctx, a.lon_cpr as u64 == me(b, 40, 17), "[C10] airborne position: lon_cpr == ME bits 40-56");
        }
        ME::SurfacePosition(p) => {
            vcheck!(ctx, tc >= 5 && tc <= 8, "[C10] type code 5-8 selects surface position");
            vcheck!(ctx, p.tc as u64 == tc, "[C10] surface position: tc == ME bits 1-5");
            vcheck!(ctx, p.mov as u64 == me(b, 6, 7), "[C10] surface position: movement == ME bits 6-12");
            vcheck!(ctx, p.s as u64 == me(b, 13, 1), "[C10] surface position: track status == ME bit 13");
            vcheck!(ctx, p.trk as u64 == me(b, 14, 7), "[C10] surface position: track == ME bits 14-20");
            vcheck!(ctx, p.t as u64 == me(b, 21, 1), "[C10] surface position: time bit == ME bit 21");
            vcheck!(ctx, p.f as u64 == me(b, 22, 1), "[C10] surface position: CPR format == ME bit 22");
            vcheck!(ctx, p.lat_cpr as u64 == me(b, 23, 17), "[C10] surface position: lat_cpr == ME bits 23-39");
            vcheck!(ctx, p.lon_cpr as u64 == me(b, 40, 17), "[C10] surface position: lon_cpr == ME bits 40-56");
        }
        ME::AircraftIdentification(id) => {
            vcheck!(ctx, tc >= 1 && tc <= 4, "[C08,C10] type code 1-4 selects identification");
            vcheck!(ctx, id.tc as u64 == tc, "[C08] identification: type coding == ME bits 1-5");
            vcheck!(ctx, id.ca as u64 == me(b, 6, 3), "[C08] identification: category == ME bits 6-8");
            let (exp, n) = ident_spec(b, 41);
            vcheck!(ctx, id.cn.len() == n, "[C08] identification (type 1-4): number of characters of ME bits 9-56 without space padding");
            #[cfg(not(kani))]
            {
                vcheck!(ctx, id.cn.as_bytes() == &exp[..n], "[C08] identification (type 1-4): the eight characters of ME bits 9-56 mapped by the Annex 10 character set");
            }
        }
        ME::AirborneVelocity(v) => {
            vcheck!(ctx, tc == 19, "[C07,C10] type code 19 selects airborne velocity");
            cmp_velocity(ctx, b, v);
        }
        ME::NoPosition(_) => {
            vcheck!(ctx, tc == 0, "[C10] type code 0 selects no-position");
        }
        ME::Reserved0(_) => {
            vcheck!(ctx, tc == 23, "[C10] type code 23 selects reserved/test");
        }
        ME::SurfaceSystemStatus(_) => {
            vcheck!(ctx, tc == 24, "[C10] type code 24 selects surface system status");
        }
        ME::Reserved1(_) => {
            vcheck!(ctx, tc >= 25 && tc <= 27, "[C10] type code 25-27 selects reserved");
        }
        ME::AircraftStatus(st) => {
            vcheck!(ctx, tc == 28, "[C09,C10] type code 28 selects aircraft status");
            let sub = me(b, 6, 3);
            vcheck!(ctx, st.sub_type as u64 == if sub <= 2 { sub } else { 3 }, "[C09] type 28: subtype == ME bits 6-8 (0, 1, 2 named, else reserved)");
            vcheck!(ctx, st.emergency_state as u64 == me(b, 9, 3), "[C09] type 28: emergency state == ME bits 9-11");
            vcheck!(ctx, st.squawk == squawk_spec(me(b, 12, 13) as u32), "[C09] type 28: squawk == squawk_spec(ME bits 12-24)");
        }
        ME::TargetStateAndStatusInformation(t) => {
            vcheck!(ctx, tc == 29, "[C10] type code 29 selects target state and status");
            vcheck!(ctx, t.subtype as u64 == me(b, 6, 2), "[C10] target state: subtype == ME bits 6-7");
            vcheck!(ctx, t.is_fms as u64 == me(b, 9, 1), "[C10] target state: selected altitude type == ME bit 9");
            let n = me(b, 10, 11);
            vcheck!(ctx, t.altitude as u64 == if n > 1 { (n - 1) * 32 } else { 0 }, "[C10] target state: selected altitude == (ME bits 10-20 - 1) * 32 ft");
            let q = me(b, 21, 9);
            let qexp: f64 = if q == 0 { 0.0 } else { 800.0 + ((q - 1) as f64) * 0.8 };
            let qd = t.qnh as f64 - qexp;
            vcheck!(ctx, qd <= 1e-3 && qd >= -1e-3, "[C10] target state: QNH == 800 + (ME bits 21-29 - 1) * 0.8 hPa");
            vcheck!(ctx, t.is_heading as u64 == me(b, 30, 1), "[C10] target state: heading status == ME bit 30");
            let hexp: f64 = (me(b, 31, 9) as f64) * 180.0 / 256.0;
            let hd = t.heading as f64 - hexp;
            vcheck!(ctx, hd <= 1e-4 && hd >= -1e-4, "[C10] target state: heading == ME bits 31-39 * 180/256 deg");
            vcheck!(ctx, t.nacp as u64 == me(b, 40, 4), "[C10] target state: NACp == ME bits 40-43");
            vcheck!(ctx, t.nicbaro as u64 == me(b, 44, 1), "[C10] target state: NICbaro == ME bit 44");
            vcheck!(ctx, t.sil as u64 == me(b, 45, 2), "[C10] target state: SIL == ME bits 45-46");
            vcheck!(ctx, t.mode_validity as u64 == me(b, 47, 1), "[C10] target state: mode status == ME bit 47");
            vcheck!(ctx, t.autopilot as u64 == me(b, 48, 1), "[C10] target state: autopilot == ME bit 48");
            vcheck!(ctx, t.vnac as u64 == me(b, 49, 1), "[C10] target state: VNAV == ME bit 49");
            vcheck!(ctx, t.alt_hold as u64 == me(b, 50, 1), "[C10] target state: altitude hold == ME bit 50");
            vcheck!(ctx, t.imf as u64 == me(b, 51, 1), "[C10] target state: IMF == ME bit 51");
            vcheck!(ctx, t.approach as u64 == me(b, 52, 1), "[C10] target state: approach == ME bit 52");
            vcheck!(ctx, t.tcas as u64 == me(b, 53, 1), "[C10] target state: TCAS operational == ME bit 53");
            vcheck!(ctx, t.lnav as u64 == me(b, 54, 1), "[C10] target state: LNAV == ME bit 54");
        }
        ME::AircraftOperationalCoordination(_) => {
            vcheck!(ctx, tc == 30, "[C10] type code 30 selects operational coordination");
        }
        ME::AircraftOperationStatus(os) => {
            vcheck!(ctx, tc == 31, "[C10] type code 31 selects operational status");
            let sub = me(b, 6, 3);
            match os {
                OperationStatus::Airborne(a) => {
                    vcheck!(ctx, sub == 0, "[C10] operational status: subtype 0 selects airborne");
                    let cc = &a.capability_class;
                    vcheck!(ctx, cc.reserved0 == 0 && cc.reserved1 == 0, "[C02,C10] operational status airborne: reserved CC bits are zero in an accepted report");
                    vcheck!(ctx, cc.acas as u64 == me(b, 11, 1), "[C10] operational status airborne: CC ACAS == ME bit 11");
                    vcheck!(ctx, cc.cdti as u64 == me(b, 12, 1), "[C10] operational status airborne: CC CDTI == ME bit 12");
                    vcheck!(ctx, cc.arv as u64 == me(b, 15, 1), "[C10] operational status airborne: CC ARV == ME bit 15");
                    vcheck!(ctx, cc.ts as u64 == me(b, 16, 1), "[C10] operational status airborne: CC TS == ME bit 16");
                    vcheck!(ctx, cc.tc as u64 == me(b, 17, 2), "[C10] operational status airborne: CC TC == ME bits 17-18");
                    cmp_om(ctx, b, &a.operational_mode);
                    vcheck!(ctx, a.version_number as u64 == me(b, 41, 3), "[C10] operational status airborne: version == ME bits 41-43");
                    vcheck!(ctx, a.nic_supplement_a as u64 == me(b, 44, 1), "[C10] operational status airborne: NIC supplement A == ME bit 44");
                    vcheck!(ctx, a.navigational_accuracy_category as u64 == me(b, 45, 4), "[C10] operational status airborne: NACp == ME bits 45-48");
                    vcheck!(ctx, a.geometric_vertical_accuracy as u64 == me(b, 49, 2), "[C10] operational status airborne: GVA == ME bits 49-50");
                    vcheck!(ctx, a.source_integrity_level as u64 == me(b, 51, 2), "[C10] operational status airborne: SIL == ME bits 51-52");
                    vcheck!(ctx, a.barometric_altitude_integrity as u64 == me(b, 53, 1), "[C10] operational status airborne: NICbaro == ME bit 53");
                    vcheck!(ctx, a.horizontal_reference_direction as u64 == me(b, 54, 1), "[C10] operational status airborne: HRD == ME bit 54");
                    vcheck!(ctx, a.sil_supplement as u64 == me(b, 55, 1), "[C10] operational status airborne: SIL supplement == ME bit 55");
                }
                OperationStatus::Surface(a) => {
                    vcheck!(ctx, sub == 1, "[C10] operational status: subtype 1 selects surface");
                    let cc = &a.capability_class;
                    vcheck!(ctx, cc.reserved0 == 0, "[C02,C10] operational status surface: reserved CC bits are zero in an accepted report");
                    vcheck!(ctx, cc.poe as u64 == me(b, 11, 1), "[C10] operational status surface: CC POA == ME bit 11");
                    vcheck!(ctx, cc.es1090 as u64 == me(b, 12, 1), "[C10] operational status surface: CC 1090ES IN == ME bit 12");
                    vcheck!(ctx, cc.b2_low as u64 == me(b, 15, 1), "[C10] operational status surface: CC B2 low == ME bit 15");
                    vcheck!(ctx, cc.uat_in as u64 == me(b, 16, 1), "[C10] operational status surface: CC UAT IN == ME bit 16");
                    vcheck!(ctx, cc.nac_v as u64 == me(b, 17, 3), "[C10] operational status surface: CC NACv == ME bits 17-19");
                    vcheck!(ctx, cc.nic_supplement_c as u64 == me(b, 20, 1), "[C10] operational status surface: CC NIC supplement C == ME bit 20");
                    vcheck!(ctx, a.lw_codes as u64 == me(b, 21, 4), "[C10] operational status surface: L/W code == ME bits 21-24");
                    cmp_om(ctx, b, &a.operational_mode);
                    vcheck!(ctx, a.gps_antenna_offset as u64 == me(b, 33, 8), "[C10] operational status surface: GPS antenna offset == ME bits 33-40");
                    vcheck!(ctx, a.version_number as u64 == me(b, 41, 3), "[C10] operational status surface: version == ME bits 41-43");
                    vcheck!(ctx, a.nic_supplement_a as u64 == me(b, 44, 1), "[C10] operational status surface: NIC supplement A == ME bit 44");
                    vcheck!(ctx, a.navigational_accuracy_category as u64 == me(b, 45, 4), "[C10] operational status surface: NACp == ME bits 45-48");
                    vcheck!(ctx, a.source_integrity_level as u64 == me(b, 51, 2), "[C10] operational status surface: SIL == ME bits 51-52");
                    vcheck!(ctx, a.barometric_altitude_integrity as u64 == me(b, 53, 1), "[C10] operational status surface: TRK/HDG == ME bit 53");
                    vcheck!(ctx, a.horizontal_reference_direction as u64 == me(b, 54, 1), "[C10] operational status surface: HRD == ME bit 54");
                    vcheck!(ctx, a.sil_supplement as u64 == me(b, 55, 1), "[C10] operational status surface: SIL supplement == ME bit 55");
                }
                OperationStatus::Reserved(..) => {
                    vcheck!(ctx, sub >= 2, "[C10] operational status: subtype 2-7 selects reserved");
                }
            }
        }
    }
}

fn cmp_om(ctx: &mut Ctx, b: &[u8], om: &OperationalMode) {
    let (res, ra, ident, atc, saf, sda) = om.verif_fields();
    vcheck!(ctx, res == 0, "[C02,C10] operational status: reserved OM bits are zero in an accepted report");
    vcheck!(ctx, ra as u64 == me(b, 27, 1), "[C10] operational status: OM TCAS RA active == ME bit 27");
    vcheck!(ctx, ident as u64 == me(b, 28, 1), "[C10] operational status: OM IDENT switch == ME bit 28");
    vcheck!(ctx, atc as u64 == me(b, 29, 1), "[C10] operational status: OM receiving ATC services == ME bit 29");
    vcheck!(ctx, saf as u64 == me(b, 30, 1), "[C10] operational status: OM single antenna == ME bit 30");
    vcheck!(ctx, sda as u64 == me(b, 31, 2), "[C10] operational status: OM SDA == ME bits 31-32");
}

/// type 19 field layout (C07, fields part)
pub fn cmp_velocity(ctx: &mut Ctx, b: &[u8], v: &AirborneVelocity) {
    let st = me(b, 6, 3);
    vcheck!(ctx, v.st as u64 == st, "[C07] velocity: subtype == ME bits 6-8");
    vcheck!(ctx, v.nac_v as u64 == me(b, 9, 5), "[C07] velocity: IC/IFR/NACv word == ME bits 9-13");
    match &v.sub_type {
        AirborneVelocitySubType::GroundSpeedDecoding(g) => {
            vcheck!(ctx, st == 1 || st == 2, "[C07] velocity: subtypes 1-2 are ground speed");
            vcheck!(ctx, g.ew_sign as u64 == me(b, 14, 1), "[C07] velocity: east/west direction == ME bit 14");
            vcheck!(ctx, g.ew_vel as u64 == me(b, 15, 10), "[C07] velocity: east/west velocity == ME bits 15-24");
            vcheck!(ctx, g.ns_sign as u64 == me(b, 25, 1), "[C07] velocity: north/south direction == ME bit 25");
            vcheck!(ctx, g.ns_vel as u64 == me(b, 26, 10), "[C07] velocity: north/south velocity == ME bits 26-35");
        }
        AirborneVelocitySubType::AirspeedDecoding(a) => {
            vcheck!(ctx, st == 3 || st == 4, "[C07] velocity: subtypes 3-4 are airspeed");
            vcheck!(ctx, a.status_heading as u64 == me(b, 14, 1), "[C07] velocity: heading status == ME bit 14");
            vcheck!(ctx, a.mag_heading as u64 == me(b, 15, 10), "[C07] velocity: heading == ME bits 15-24");
            vcheck!(ctx, a.airspeed_type as u64 == me(b, 25, 1), "[C07] velocity: airspeed type == ME bit 25");
            let raw = me(b, 26, 10);
            vcheck!(ctx, a.airspeed as u64 == if raw > 0 { raw - 1 } else { 0 }, "[C07] velocity: airspeed == ME bits 26-35 - 1 kt");
        }
        AirborneVelocitySubType::Reserved0(w) => {
            vcheck!(ctx, st == 0, "[C07] velocity: subtype 0 is reserved");
        }
        AirborneVelocitySubType::Reserved1(w) => {
            vcheck!(ctx, st >= 5, "[C07] velocity: subtypes 5-7 are reserved");
        }
    }
    vcheck!(ctx, v.vrate_src as u64 == me(b, 36, 1), "[C07] velocity: vertical rate source == ME bit 36");
    vcheck!(ctx, v.vrate_sign as u64 == me(b, 37, 1), "[C07] velocity: vertical rate sign == ME bit 37");
    vcheck!(ctx, v.vrate_value as u64 == me(b, 38, 9), "[C07] velocity: vertical rate == ME bits 38-46");
    vcheck!(ctx, v.gnss_sign as u64 == me(b, 49, 1), "[C07] velocity: GNSS-baro sign == ME bit 49");
    let d = me(b, 50, 7);
    vcheck!(ctx, v.gnss_baro_diff as u64 == if d > 1 { (d - 1) * 25 } else { 0 }, "[C07] velocity: GNSS-baro difference == (ME bits 50-56 - 1) * 25 ft");
}

/// MB field (frame bits 33-88) of DF20/21
pub fn cmp_bds(ctx: &mut Ctx, b: &[u8], bds: &BDS) {
    let id = me(b, 1, 8);
    vnote!(ctx, "MB first byte {:#04x} payload {:?}", id, bds);
    match bds {
        BDS::Empty(_) => {
            vcheck!(ctx, id == 0x00, "[C10] MB first byte 0x00 selects the empty response");
        }
        BDS::DataLinkCapability(d) => {
            vcheck!(ctx, id == 0x10, "[C10] MB first byte 0x10 selects BDS 1,0");
            vcheck!(ctx, d.continuation_flag as u64 == me(b, 9, 1), "[C10] BDS 1,0: continuation flag == MB bit 9");
            vcheck!(ctx, d.overlay_command_capability as u64 == me(b, 15, 1), "[C10] BDS 1,0: overlay command capability == MB bit 15");
            vcheck!(ctx, d.acas as u64 == me(b, 16, 1), "[C10] BDS 1,0: ACAS == MB bit 16");
            vcheck!(ctx, d.mode_s_subnetwork_version_number as u64 == me(b, 17, 7), "[C10] BDS 1,0: subnetwork version == MB bits 17-23");
            vcheck!(ctx, d.transponder_enhanced_protocol_indicator as u64 == me(b, 24, 1), "[C10] BDS 1,0: enhanced protocol indicator == MB bit 24");
            vcheck!(ctx, d.mode_s_specific_services_capability as u64 == me(b, 25, 1), "[C10] BDS 1,0: specific services capability == MB bit 25");
            vcheck!(ctx, d.uplink_elm_average_throughput_capability as u64 == me(b, 26, 3), "[C10] BDS 1,0: uplink ELM == MB bits 26-28");
            vcheck!(ctx, d.downlink_elm as u64 == me(b, 29, 4), "[C10] BDS 1,0: downlink ELM == MB bits 29-32");
            vcheck!(ctx, d.aircraft_identification_capability as u64 == me(b, 33, 1), "[C10] BDS 1,0: aircraft identification capability == MB bit 33");
            vcheck!(ctx, d.squitter_capability_subfield as u64 == me(b, 34, 1), "[C10] BDS 1,0: squitter capability == MB bit 34");
            vcheck!(ctx, d.surveillance_identifier_code as u64 == me(b, 35, 1), "[C10] BDS 1,0: SIC == MB bit 35");
            vcheck!(ctx, d.common_usage_gicb_capability_report as u64 == me(b, 36, 1), "[C10] BDS 1,0: common usage GICB == MB bit 36");
            vcheck!(ctx, d.reserved_acas as u64 == me(b, 37, 4), "[C10] BDS 1,0: ACAS reserved == MB bits 37-40");
            vcheck!(ctx, d.bit_array as u64 == me(b, 41, 16), "[C10] BDS 1,0: DTE sub-address bit array == MB bits 41-56 (MSB first)");
        }
        BDS::AircraftIdentification(cn) => {
            vcheck!(ctx, id == 0x20, "[C08,C10] MB first byte 0x20 selects BDS 2,0");
            let (exp, n) = ident_spec(b, 41);
            vcheck!(ctx, cn.len() == n, "[C08] BDS 2,0: number of characters of MB bits 9-56 without space padding");
            #[cfg(not(kani))]
            {
                vcheck!(ctx, cn.as_bytes() == &exp[..n], "[C08] BDS 2,0: the eight characters of MB bits 9-56 mapped by the Annex 10 character set");
            }
        }
        BDS::Unknown(_) => {
            vcheck!(ctx, !(id == 0x00 || id == 0x10 || id == 0x20), "[C10] any other MB first byte selects unknown");
        }
    }
}

/// decoded frame against the specification, field by field
pub fn cmp_df(ctx: &mut Ctx, b: &[u8], fdf: &DF) {
    let df = df_of(b[0]) as u64;
    let need = need_bytes(df as u8);
    let last24 = bits(b, need * 8 - 23, 24);
    match fdf {
        DF::ShortAirAirSurveillance { vs, cc, unused, sl, unused1, ri, unused2, altitude, parity } => {
            vcheck!(ctx, df == 0, "[C02] format 0 selects short air-air surveillance");
            vcheck!(ctx, *vs as u64 == bits(b, 6, 1), "[C04] DF0: VS == frame bit 6");
            vcheck!(ctx, *cc as u64 == bits(b, 7, 1), "[C04] DF0: CC == frame bit 7");
            vcheck!(ctx, *sl as u64 == bits(b, 9, 3), "[C04] DF0: SL == frame bits 9-11");
            vcheck!(ctx, *ri as u64 == bits(b, 14, 4), "[C04] DF0: RI == frame bits 14-17");
            vcheck!(ctx, altitude.0 == ac13_spec(bits(b, 20, 13) as u32), "[C06] DF0: altitude == ac13_spec(frame bits 20-32)");
            vcheck!(ctx, icao_u32(parity) == last24, "[C04] DF0: AP == the frame's last 24 bits");
        }
        DF::SurveillanceAltitudeReply { fs, dr, um, ac, ap } => {
            vcheck!(ctx, df == 4, "[C02] format 4 selects surveillance altitude reply");
            cmp_surv_header(ctx, b, fs, dr, um);
            vcheck!(ctx, ac.0 == ac13_spec(bits(b, 20, 13) as u32), "[C06] DF4: altitude == ac13_spec(frame bits 20-32)");
            vcheck!(ctx, icao_u32(ap) == last24, "[C04] DF4: AP == the frame's last 24 bits");
        }
        DF::SurveillanceIdentityReply { fs, dr, um, id, ap } => {
            vcheck!(ctx, df == 5, "[C02] format 5 selects surveillance identity reply");
            cmp_surv_header(ctx, b, fs, dr, um);
            vcheck!(ctx, id.0 as u32 == squawk_spec(bits(b, 20, 13) as u32), "[C09] DF5: identity == squawk_spec(frame bits 20-32)");
            vcheck!(ctx, icao_u32(ap) == last24, "[C04] DF5: AP == the frame's last 24 bits");
        }
        DF::AllCallReply { capability, icao, p_icao } => {
            vcheck!(ctx, df == 11, "[C02] format 11 selects all-call reply");
            vcheck!(ctx, cap_id(capability) == bits(b, 6, 3) && cap_variant_ok(capability, bits(b, 6, 3)), "[C04] DF11: CA == frame bits 6-8");
            vcheck!(ctx, icao_u32(icao) == bits(b, 9, 24), "[C04] DF11: announced address == frame bits 9-32");
            vcheck!(ctx, icao_u32(p_icao) == last24, "[C04] DF11: PI == the frame's last 24 bits");
        }
        DF::LongAirAir { vs, spare1, sl, spare2, ri, spare3, altitude, mv, parity } => {
            vcheck!(ctx, df == 16, "[C02] format 16 selects long air-air surveillance");
            vcheck!(ctx, *vs as u64 == bits(b, 6, 1), "[C04] DF16: VS == frame bit 6");
            vcheck!(ctx, *sl as u64 == bits(b, 9, 3), "[C04] DF16: SL == frame bits 9-11");
            vcheck!(ctx, *ri as u64 == bits(b, 14, 4), "[C04] DF16: RI == frame bits 14-17");
            vcheck!(ctx, altitude.0 == ac13_spec(bits(b, 20, 13) as u32), "[C06] DF16: altitude == ac13_spec(frame bits 20-32)");
            vcheck!(ctx, mv.len() == 7, "[C04] DF16: MV is 56 bits");
            let mut k = 0;
            let mut same = mv.len() == 7;
            while k < 7 {
                if same && mv[k] != b[4 + k] {
                    same = false;
                }
                k += 1;
            }
            vcheck!(ctx, same, "[C04] DF16: MV == frame bits 33-88");
            vcheck!(ctx, icao_u32(parity) == last24, "[C04] DF16: AP == the frame's last 24 bits");
        }
        DF::ADSB(a) => {
            vcheck!(ctx, df == 17, "[C02] format 17 selects extended squitter");
            vcheck!(ctx, cap_id(&a.capability) == bits(b, 6, 3) && cap_variant_ok(&a.capability, bits(b, 6, 3)), "[C04] DF17: CA == frame bits 6-8");
            vcheck!(ctx, icao_u32(&a.icao) == bits(b, 9, 24), "[C04] DF17: announced address == frame bits 9-32");
            vcheck!(ctx, icao_u32(&a.pi) == last24, "[C04] DF17: PI == the frame's last 24 bits");
            cmp_me(ctx, b, &a.me);
        }
        DF::TisB { cf, pi } => {
            vcheck!(ctx, df == 18, "[C02] format 18 selects TIS-B / ADS-R");
            vcheck!(ctx, cf.verif_t() as u64 == bits(b, 6, 3), "[C04] DF18: CF == frame bits 6-8");
            vcheck!(ctx, icao_u32(&cf.aa) == bits(b, 9, 24), "[C04] DF18: announced address == frame bits 9-32");
            vcheck!(ctx, icao_u32(pi) == last24, "[C04] DF18: PI == the frame's last 24 bits");
            cmp_me(ctx, b, &cf.me);
        }
        DF::ExtendedQuitterMilitaryApplication { af } => {
            vcheck!(ctx, df == 19, "[C02] format 19 selects military extended squitter");
            vcheck!(ctx, *af as u64 == bits(b, 6, 3), "[C04] DF19: AF == frame bits 6-8");
        }
        DF::CommBAltitudeReply { flight_status, dr, um, alt, bds } => {
            vcheck!(ctx, df == 20, "[C02] format 20 selects Comm-B altitude reply");
            cmp_surv_header(ctx, b, flight_status, dr, um);
            vcheck!(ctx, alt.0 == ac13_spec(bits(b, 20, 13) as u32), "[C06] DF20: altitude == ac13_spec(frame bits 20-32)");
            cmp_bds(ctx, b, bds);
        }
        DF::CommBIdentityReply { fs, dr, um, id, bds, parity } => {
            vcheck!(ctx, df == 21, "[C02] format 21 selects Comm-B identity reply");
            cmp_surv_header(ctx, b, fs, dr, um);
            vcheck!(ctx, *id == squawk_spec(bits(b, 20, 13) as u32), "[C09] DF21: identity == squawk_spec(frame bits 20-32)");
            cmp_bds(ctx, b, bds);
            vcheck!(ctx, icao_u32(parity) == last24, "[C04] DF21: AP == the frame's last 24 bits");
        }
        DF::ModeSExtendedSquitter { df: d, capability, icao, type_code, adsb_data, parity } => {
            vcheck!(ctx, df >= 24, "[C02] formats 24-31 select the Comm-D / extended-length variant");
            vcheck!(ctx, *d as u64 == df, "[C04] DF24-31: format number == frame bits 1-5");
            vcheck!(ctx, cap_id(capability) == bits(b, 6, 3) && cap_variant_ok(capability, bits(b, 6, 3)), "[C04] DF24-31: capability == frame bits 6-8");
            vcheck!(ctx, icao_u32(icao) == bits(b, 9, 24), "[C04] DF24-31: announced address == frame bits 9-32");
            vcheck!(ctx, *type_code as u64 == bits(b, 33, 5), "[C04] DF24-31: type code == frame bits 33-37");
            vcheck!(ctx, icao_u32(parity) == last24, "[C04] DF24-31: AP == the frame's last 24 bits");
        }
    }
}

/// Contract of `Frame::from_bytes` for a buffer of `len` bytes whose byte 0 runs over
/// b0_lo..=b0_hi (concrete) and whose byte 4 is `b4` (concrete) when b4 >= 0; all other bytes
/// symbolic.  C02: Ok <=> accept; C03: crc window; C04/C06/C08/C09/C07/C10: fields; C01: Kani's
/// default checks on everything executed.
pub fn obl_frame(s: &mut Src, ctx: &mut Ctx, len: usize, b0_lo: u8, b0_hi: u8, b4: i32) {
    let mut b0 = b0_lo as usize;
    while b0 <= b0_hi as usize {
        let mut b = [0u8; 32];
        s.fill(&mut b[..len]);
        if len > 0 {
            b[0] = b0 as u8;
        }
        if b4 >= 0 && len > 4 {
            b[4] = b4 as u8;
        }
        let buf = &b[..len];
        let r = Frame::from_bytes(buf);
        let acc = accept(buf);
        vnote!(ctx, "frame {:02x?} -> accept(spec)={} result={:?}", buf, acc, r);
        match &r {
            Ok(f) => {
                vcheck!(ctx, acc, "[C02] a frame is produced only for a supported format, a complete buffer and an in-range operational status");
                if acc {
                    let need = need_bytes(df_of(b[0]));
                    let win = crc::modes_checksum(&b[..need], need * 8);
                    vcheck!(ctx, matches!(win, Ok(v) if v == f.crc), "[C03,C02] checksum is computed over exactly the first 7/14 bytes of the buffer");
                    #[cfg(not(kani))]
                    {
                        vcheck!(ctx, f.crc == syndrome(&b[..need], need), "[C03] checksum == Mode S parity syndrome (bitwise polynomial division)");
                    }
                    cmp_df(ctx, &b[..need], &f.df);
                }
            }
            Err(_) => {
                vcheck!(ctx, !acc, "[C02] every complete frame of a supported format is accepted (except out-of-range operational status)");
            }
        }
        b0 += 1;
    }
}

/// Contract of `ME::from_reader_with_ctx` in the reader state the enclosing DF17/DF18 reader
/// leaves it in (32 bits consumed, byte aligned): consumes exactly 56 bits and every field equals
/// the layout table.  First payload byte concrete.
pub fn obl_me(s: &mut Src, ctx: &mut Ctx, tc: u8, low_mask: u8) {
    let mut low = 0usize;
    while low < 8 {
        if (low_mask >> low) & 1 == 0 {
            low += 1;
            continue;
        }
        let b4 = ((tc as usize) << 3) | low;
        let mut b = [0u8; 14];
        s.fill(&mut b[5..14]);
        b[0] = 0x8d;
        b[4] = b4 as u8;
        let mut c = Cursor::new(&b[..]);
        let mut r = Reader::new(&mut c);
        let _ = r.skip_bits(32);
        let got = ME::from_reader_with_ctx(&mut r, ());
        let rej = opstatus_reject(&b);
        vnote!(ctx, "ME {:02x?} -> reject(spec)={} result={:?} bits_read={}", &b[4..11], rej, got, r.bits_read);
        match &got {
            Ok(m) => {
                vcheck!(ctx, !rej, "[C02] out-of-range operational status is rejected");
                if !rej {
                    // (deku's own `bits_read` counter is not a reliable position after an identifier
                    // re-read in the middle of a byte, so alignment is observed on the stream itself)
                    let tail = <[u8; 3]>::from_reader_with_ctx(&mut r, deku::ctx::Endian::Big);
                    vcheck!(ctx, matches!(tail, Ok(t) if t[0] == b[11] && t[1] == b[12] && t[2] == b[13]), "[C04,C10] every ME payload variant consumes exactly 56 bits: the next 24 bits read are the frame's last 24 bits");
                    cmp_me(ctx, &b, m);
                }
            }
            Err(_) => {
                vcheck!(ctx, rej, "[C02] only out-of-range operational status payloads are rejected");
            }
        }
        low += 1;
    }
}

/// Contract of `BDS::from_reader_with_ctx` in the reader state DF20/21 leave it in
pub fn obl_bds(s: &mut Src, ctx: &mut Ctx, b4_lo: u8, b4_hi: u8) {
    let mut b4 = b4_lo as usize;
    while b4 <= b4_hi as usize {
        let mut b = [0u8; 14];
        s.fill(&mut b[5..14]);
        b[0] = 0xa8;
        b[4] = b4 as u8;
        let mut c = Cursor::new(&b[..]);
        let mut r = Reader::new(&mut c);
        let _ = r.skip_bits(32);
        let got = BDS::from_reader_with_ctx(&mut r, ());
        vnote!(ctx, "MB {:02x?} -> {:?} bits_read={}", &b[4..11], got, r.bits_read);
        match &got {
            Ok(m) => {
                let tail = <[u8; 3]>::from_reader_with_ctx(&mut r, deku::ctx::Endian::Big);
                vcheck!(ctx, matches!(tail, Ok(t) if t[0] == b[11] && t[1] == b[12] && t[2] == b[13]), "[C04,C10] every MB payload variant consumes exactly 56 bits: the next 24 bits read are the frame's last 24 bits");
                cmp_bds(ctx, &b, m);
            }
            Err(_) => {
                vcheck!(ctx, false, "[C02] no MB payload is rejected");
            }
        }
        b4 += 1;
    }
}

/// Contract of `DF::from_reader_with_ctx` (the structural decoder behind `Frame::from_bytes`) on
/// a complete frame: byte 0 = b0 and (when b4 >= 0) byte 4 = b4 concrete, every other bit symbolic.
/// C02: Ok <=> supported format and in-range operational status; C04/C06/C07/C08/C09/C10: fields.
pub fn obl_df(s: &mut Src, ctx: &mut Ctx, b0: u8, b4: i32) {
    obl_df_with(s, ctx, b0, b4, false)
}

/// the same contract with the bytes served by a plain byte-copying reader instead of the io
/// Cursor: the alloc-only build's Cursor (no_std_io2) copies even single bytes with memcpy, which
/// hides the concrete id bytes from CBMC (measured: df00 16 s with std, > 900 s with alloc)
pub fn obl_df_plain_reader(s: &mut Src, ctx: &mut Ctx, b0: u8, b4: i32) {
    obl_df_with(s, ctx, b0, b4, true)
}

fn obl_df_with(s: &mut Src, ctx: &mut Ctx, b0: u8, b4: i32, plain: bool) {
    let need = need_bytes(df_of(b0));
    let mut b = [0u8; 14];
    s.fill(&mut b[..need]);
    b[0] = b0;
    if b4 >= 0 {
        b[4] = b4 as u8;
    }
    let buf = &b[..need];
    let mut b32 = [0u8; 32];
    let mut i = 0;
    while i < need {
        b32[i] = b[i];
        i += 1;
    }
    let mut c = Cursor::new(buf);
    let mut pr = crate::verif_obl_reader::SchedReader { data: b32, len: need, pos: 0, calls: 0, single: false, short_at: usize::MAX, interrupt_at: usize::MAX };
    let got = if plain {
        let mut r = Reader::new(&mut pr);
        DF::from_reader_with_ctx(&mut r, ())
    } else {
        let mut r = Reader::new(&mut c);
        DF::from_reader_with_ctx(&mut r, ())
    };
    let acc = accept(buf);
    vnote!(ctx, "frame {:02x?} -> accept(spec)={} result={:?}", buf, acc, got);
    match &got {
        Ok(d) => {
            vcheck!(ctx, acc, "[C02] a frame is produced only for a supported format and an in-range operational status");
            if acc {
                // (alignment of the whole frame is observed through the trailing field == last 24 bits)
                cmp_df(ctx, buf, d);
            }
        }
        Err(_) => {
            vcheck!(ctx, !acc, "[C02] every complete frame of a supported format is accepted (except out-of-range operational status)");
        }
    }
}

/// Contract of `Frame::from_bytes` restricted to what the wrapper adds to the structural decoder:
/// acceptance, the downlink format variant, and the checksum window (C02 / C03).  `len` may exceed
/// the frame length (trailing bytes must not matter) or fall short of it (alloc build only).
pub fn obl_frame_crc(s: &mut Src, ctx: &mut Ctx, len: usize, b0: u8, b4: i32) {
    let mut b = [0u8; 32];
    s.fill(&mut b[..len]);
    if len > 0 {
        b[0] = b0;
    }
    if b4 >= 0 && len > 4 {
        b[4] = b4 as u8;
    }
    let buf = &b[..len];
    let r = Frame::from_bytes(buf);
    let acc = accept(buf);
    vnote!(ctx, "frame {:02x?} -> accept(spec)={} result={:?}", buf, acc, r);
    match &r {
        Ok(f) => {
            vcheck!(ctx, acc, "[C02] a frame is produced only for a supported format, a complete buffer and an in-range operational status");
            if acc {
                let need = need_bytes(df_of(b[0]));
                let win = crc::modes_checksum(&b[..need], need * 8);
                vcheck!(ctx, matches!(win, Ok(v) if v == f.crc), "[C03,C02] checksum is computed over exactly the first 7/14 bytes of the buffer");
                #[cfg(not(kani))]
                {
                    vcheck!(ctx, f.crc == syndrome(&b[..need], need), "[C03] checksum == Mode S parity syndrome (bitwise polynomial division)");
                }
                let id = f.df.deku_id();
                vcheck!(ctx, match id { Ok(v) => v == df_of(b[0]), Err(_) => df_of(b[0]) >= 24 }, "[C02] the decoded variant is the one selected by the first five bits");
            }
        }
        Err(_) => {
            vcheck!(ctx, !acc, "[C02] every complete frame of a supported format is accepted (except out-of-range operational status)");
        }
    }
}

/// General native oracle (bounded sweeps and counterexample search; never run under Kani):
/// first input byte = buffer length (mod 33), then the buffer.  Full contract of Frame::from_bytes.
pub fn obl_frame_any(s: &mut Src, ctx: &mut Ctx) {
    let len = (s.u8() as usize) % 33;
    let mut b = [0u8; 32];
    s.fill(&mut b[..len]);
    let buf = &b[..len];
    let r = Frame::from_bytes(buf);
    let acc = accept(buf);
    vnote!(ctx, "frame {:02x?} -> accept(spec)={} result={:?}", buf, acc, r);
    match &r {
        Ok(f) => {
            vcheck!(ctx, acc, "[C02] a frame is produced only for a supported format, a complete buffer and an in-range operational status");
            if acc {
                let need = need_bytes(df_of(b[0]));
                vcheck!(ctx, f.crc == syndrome(&b[..need], need), "[C03,C02] checksum == Mode S parity syndrome of exactly the first 7/14 bytes");
                cmp_df(ctx, &b[..need], &f.df);
            }
        }
        Err(_) => {
            vcheck!(ctx, !acc, "[C02] every complete frame of a supported format is accepted (except out-of-range operational status)");
        }
    }
}
