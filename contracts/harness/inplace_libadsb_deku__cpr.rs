
// ---- C05 contracts (added lines only, cfg-gated).  They live here because positive_mod and
// get_lat_lon are private to this module. ----
#[cfg(any(kani, verif_native))]
pub mod verif_cpr {
    #![allow(dead_code, unused_imports, unused_variables, unused_mut, clippy::all)]
    use super::*;
    use crate::verif_nl_table::NL_T;
    use crate::verif_support::*;

    /// Contract of `positive_mod` that Kani *assumes* (its own f64 `%` is unsound: 30.0 % 59.0 !=
    /// 30.0 under Kani 0.68): a - b*floor(a/b).  Validated natively on the complete reachable
    /// argument set by `obl_positive_mod_native`.
    pub fn positive_mod_contract(a: f64, b: f64) -> f64 {
        a - b * libm::floor(a / b)
    }

    /// NL(lat) of 1090-WP-9-14: thresholds generated at check time from the closed form
    pub fn nl_spec(lat: f64) -> u64 {
        let a = if lat < 0.0 { -lat } else { lat };
        let mut k = 0;
        while k < 58 {
            if a < NL_T[k] {
                return 59 - k as u64;
            }
            k += 1;
        }
        1
    }

    pub fn obl_cpr_nl(s: &mut Src, ctx: &mut Ctx) {
        let lat = s.f64();
        let r = cpr_nl(lat);
        vnote!(ctx, "cpr_nl({:?}) = {}, nl_spec = {}", lat, r, nl_spec(lat));
        vcheck!(ctx, r == nl_spec(lat), "[C05] NL(lat) equals the 1090-WP-9-14 transition-latitude table generated from the closed form");
        vcheck!(ctx, r >= 1 && r <= 59, "[C05] NL(lat) lies in 1..=59");
        vcheck!(ctx, lat != lat || cpr_nl(-lat) == r, "[C05] NL is symmetric about the equator");
    }

    fn mk(odd: bool, lat: u32, lon: u32) -> Altitude {
        let mut a = Altitude::default();
        a.odd_flag = if odd { CPRFormat::Odd } else { CPRFormat::Even };
        a.lat_cpr = lat;
        a.lon_cpr = lon;
        a
    }

    /// the standard's decoder (ICAO 9871 D.2.4.7.7) in IEEE double, i = parity of the second report
    pub fn cpr_spec(lat_e: u32, lon_e: u32, lat_o: u32, lon_o: u32, second_is_odd: bool) -> Option<(f64, f64)> {
        let yz0 = lat_e as f64 / 131072.0;
        let yz1 = lat_o as f64 / 131072.0;
        let xz0 = lon_e as f64 / 131072.0;
        let xz1 = lon_o as f64 / 131072.0;
        let j = libm::floor(59.0 * yz0 - 60.0 * yz1 + 0.5);
        let mut rlat0 = (360.0 / 60.0) * (positive_mod_contract(j, 60.0) + yz0);
        let mut rlat1 = (360.0 / 59.0) * (positive_mod_contract(j, 59.0) + yz1);
        if rlat0 >= 270.0 {
            rlat0 -= 360.0;
        }
        if rlat1 >= 270.0 {
            rlat1 -= 360.0;
        }
        if rlat0 < -90.0 || rlat0 > 90.0 || rlat1 < -90.0 || rlat1 > 90.0 {
            return None;
        }
        if nl_spec(rlat0) != nl_spec(rlat1) {
            return None;
        }
        let (rlat, i) = if second_is_odd { (rlat1, 1u64) } else { (rlat0, 0u64) };
        let nl = nl_spec(rlat);
        let ni = if nl - i < 1 { 1 } else { nl - i };
        let m = libm::floor(xz0 * (nl - 1) as f64 - xz1 * nl as f64 + 0.5);
        let xz = if second_is_odd { xz1 } else { xz0 };
        let mut lon = (360.0 / ni as f64) * (positive_mod_contract(m, ni as f64) + xz);
        if lon >= 180.0 {
            lon -= 360.0;
        }
        Some((rlat, lon))
    }

    /// Contract of `get_position` over raw CPR values.  `mode` selects which inputs are symbolic:
    /// 0 = everything (2^68 quadruples x both orders x all parities), 1 = latitudes symbolic and the
    /// longitudes fixed (the NL-consistency and latitude clauses only involve the latitudes).
    pub fn obl_get_position(s: &mut Src, ctx: &mut Ctx, mode: u8) {
        let p1 = s.bool();
        let p2 = s.bool();
        let lat1 = s.u32() & 0x1ffff;
        let lat2 = s.u32() & 0x1ffff;
        let (lon1, lon2) = if mode == 1 { (51372u32, 50194u32) } else { (s.u32() & 0x1ffff, s.u32() & 0x1ffff) };
        let a = mk(p1, lat1, lon1);
        let b = mk(p2, lat2, lon2);
        let got = get_position((&a, &b));
        let spec = if p1 == p2 {
            None
        } else if p2 {
            cpr_spec(lat1, lon1, lat2, lon2, true)
        } else {
            cpr_spec(lat2, lon2, lat1, lon1, false)
        };
        vnote!(ctx, "first=({}, {}, {}) second=({}, {}, {}): get_position = {:?}, spec = {:?}", if p1 { "odd" } else { "even" }, lat1, lon1, if p2 { "odd" } else { "even" }, lat2, lon2, got, spec);
        if p1 == p2 {
            vcheck!(ctx, got.is_none(), "[C05] two reports of equal parity yield no position");
        }
        match got {
            Some(p) => {
                vcheck!(ctx, p.latitude >= -90.0 && p.latitude <= 90.0, "[C05] every returned latitude lies in [-90, 90]");
                vcheck!(ctx, p.longitude >= -180.0 && p.longitude < 180.0, "[C05] every returned longitude lies in [-180, 180)");
                match spec {
                    Some((la, lo)) => {
                        let d1 = p.latitude - la;
                        let d2 = p.longitude - lo;
                        vcheck!(ctx, d1 <= 1e-9 && d1 >= -1e-9, "[C05] latitude equals the standard's decoder in the zone system of the second report");
                        vcheck!(ctx, d2 <= 1e-9 && d2 >= -1e-9, "[C05] longitude equals the standard's decoder in the zone system of the second report");
                    }
                    None => {
                        vcheck!(ctx, false, "[C05] a pair that cannot stem from one location (unequal zone counts or latitude outside [-90, 90]) yields no position");
                    }
                }
            }
            None => {
                vcheck!(ctx, spec.is_none(), "[C05] a consistent even/odd pair yields a position");
            }
        }
        vcover!(got.is_some(), "cover: some pair decodes");
    }

    /// native validation of the assumed positive_mod contract on the complete reachable argument set
    pub fn obl_positive_mod_native(s: &mut Src, ctx: &mut Ctx) {
        let mut a = -130;
        let mut bad = 0;
        while a <= 130 {
            let mut b = 1;
            while b <= 60 {
                let x = positive_mod(a as f64, b as f64);
                let y = positive_mod_contract(a as f64, b as f64);
                if x != y {
                    bad += 1;
                    vnote!(ctx, "positive_mod({}, {}) = {} but contract gives {}", a, b, x, y);
                }
                b += 1;
            }
            a += 1;
        }
        vcheck!(ctx, bad == 0, "[C05] positive_mod(a, b) == a - b*floor(a/b) on all integer a in [-130, 130], b in 1..=60");
    }
}
