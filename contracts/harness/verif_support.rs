//! Support shared by every obligation: a source of inputs that is symbolic under Kani
//! (`kani::any()`) and concrete in the native replay (the bytes of the verifier's counterexample,
//! in `kani::any()` call order), and a context that turns each contract clause into a Kani
//! assertion (a named obligation) or, natively, into a recorded failure.
#![allow(dead_code, unused_macros, unused_imports, clippy::all)]

extern crate alloc;
use alloc::string::String;
use alloc::vec::Vec;

pub struct Src {
    #[cfg(not(kani))]
    pub data: Vec<u8>,
    #[cfg(not(kani))]
    pub pos: usize,
}

impl Src {
    #[cfg(kani)]
    pub fn new() -> Self {
        Src {}
    }
    #[cfg(not(kani))]
    pub fn from_bytes(data: Vec<u8>) -> Self {
        Src { data, pos: 0 }
    }
    #[cfg(not(kani))]
    fn take(&mut self, n: usize) -> u64 {
        let mut v: u64 = 0;
        for k in 0..n {
            let byte = if self.pos < self.data.len() { self.data[self.pos] } else { 0 };
            self.pos += 1;
            v |= (byte as u64) << (8 * k);
        }
        v
    }
    pub fn u8(&mut self) -> u8 {
        #[cfg(kani)]
        {
            kani::any()
        }
        #[cfg(not(kani))]
        {
            self.take(1) as u8
        }
    }
    pub fn bool(&mut self) -> bool {
        #[cfg(kani)]
        {
            kani::any()
        }
        #[cfg(not(kani))]
        {
            self.take(1) & 1 == 1
        }
    }
    pub fn u16(&mut self) -> u16 {
        #[cfg(kani)]
        {
            kani::any()
        }
        #[cfg(not(kani))]
        {
            self.take(2) as u16
        }
    }
    pub fn u32(&mut self) -> u32 {
        #[cfg(kani)]
        {
            kani::any()
        }
        #[cfg(not(kani))]
        {
            self.take(4) as u32
        }
    }
    pub fn u64(&mut self) -> u64 {
        #[cfg(kani)]
        {
            kani::any()
        }
        #[cfg(not(kani))]
        {
            self.take(8)
        }
    }
    pub fn f64(&mut self) -> f64 {
        #[cfg(kani)]
        {
            kani::any()
        }
        #[cfg(not(kani))]
        {
            f64::from_bits(self.take(8))
        }
    }
    /// fill a buffer byte by byte (one any() per byte so that playback order is obvious)
    pub fn fill(&mut self, buf: &mut [u8]) {
        let mut i = 0;
        while i < buf.len() {
            buf[i] = self.u8();
            i += 1;
        }
    }
}

pub struct Ctx {
    #[cfg(not(kani))]
    pub fails: Vec<&'static str>,
    #[cfg(not(kani))]
    pub notes: Vec<String>,
    #[cfg(not(kani))]
    pub assumed_out: bool,
    #[cfg(not(kani))]
    pub checks: usize,
}

impl Ctx {
    pub fn new() -> Self {
        #[cfg(kani)]
        {
            Ctx {}
        }
        #[cfg(not(kani))]
        {
            Ctx { fails: Vec::new(), notes: Vec::new(), assumed_out: false, checks: 0 }
        }
    }
}

/// one contract clause = one named obligation
macro_rules! vcheck {
    ($ctx:expr, $cond:expr, $name:literal) => {{
        let __c: bool = $cond;
        #[cfg(kani)]
        {
            assert!(__c, $name);
        }
        #[cfg(not(kani))]
        {
            $ctx.checks += 1;
            if !__c && !$ctx.assumed_out {
                $ctx.fails.push($name);
            }
        }
    }};
}

/// precondition of the contract (input invariant); natively: input outside the domain
macro_rules! vrequire {
    ($ctx:expr, $cond:expr) => {{
        let __c: bool = $cond;
        #[cfg(kani)]
        {
            kani::assume(__c);
        }
        #[cfg(not(kani))]
        {
            if !__c {
                $ctx.assumed_out = true;
            }
        }
    }};
}

/// reachability witness behind preconditions / branches (vacuity guard)
macro_rules! vcover {
    ($cond:expr, $name:literal) => {{
        #[cfg(kani)]
        {
            kani::cover!($cond, $name);
        }
    }};
}

/// human-readable detail for the replay file (native only)
macro_rules! vnote {
    ($ctx:expr, $($t:tt)*) => {{
        #[cfg(not(kani))]
        {
            $ctx.notes.push(alloc::format!($($t)*));
        }
    }};
}

pub(crate) use {vcheck, vcover, vnote, vrequire};
