//! C07 (derived part): contract of `AirborneVelocity::calculate`.  `libm::atan2` and `libm::hypot`
//! are trusted dependencies: under Kani they are replaced by ghost-recording stubs (the ghost
//! state the contract talks about: which arguments were passed, what was returned); natively the
//! real libm is used and the result is compared numerically.
#![allow(dead_code, unused_imports, unused_variables, unused_mut, static_mut_refs, clippy::all)]

use crate::adsb::*;
use crate::verif_spec::*;
use crate::verif_support::*;
use crate::*;

pub static mut ATAN2_CALLS: u32 = 0;
pub static mut ATAN2_ARGS: (f64, f64) = (0.0, 0.0);
pub static mut ATAN2_RET: f64 = 0.0;
pub static mut HYPOT_CALLS: u32 = 0;
pub static mut HYPOT_ARGS: (f64, f64) = (0.0, 0.0);
pub static mut HYPOT_RET: f64 = 0.0;

pub fn atan2_stub(y: f64, x: f64) -> f64 {
    unsafe {
        ATAN2_CALLS += 1;
        ATAN2_ARGS = (y, x);
        ATAN2_RET
    }
}

pub fn hypot_stub(x: f64, y: f64) -> f64 {
    unsafe {
        HYPOT_CALLS += 1;
        HYPOT_ARGS = (x, y);
        HYPOT_RET
    }
}

const PI: f64 = core::f64::consts::PI;

/// all field values of a decoded type-19 report (type invariant: the sub-structure matches st)
pub fn obl_velocity_calc(s: &mut Src, ctx: &mut Ctx, st_fixed: u8, part: u8) {
    // the subtype is a concrete parameter (0..=7), enumerated by the driver: keeps the scale and the
    // variant concrete for CBMC.  `part` splits the contract so that each CBMC run stays small:
    // 0 = all velocity / vertical-rate words symbolic, the ghost results of atan2 / hypot fixed
    //     (decides: None-ness, arguments passed to atan2 / hypot, vertical rate);
    // 1 = velocity words fixed (east -211 kt, north +304 kt raw), ghost results symbolic within the
    //     envelope (decides: degrees conversion, wrap into [0, 360), ground speed passed through).
    let st = st_fixed & 7;
    let ew_dir = if part == 1 { true } else { s.bool() };
    let ns_dir = if part == 1 { false } else { s.bool() };
    let ew_raw = if part == 1 { 212 } else { s.u16() & 0x3ff };
    let ns_raw = if part == 1 { 305 } else { s.u16() & 0x3ff };
    let vr_sign = s.bool();
    let vr_raw = if part == 1 { 17 } else { s.u16() & 0x1ff };
    // part >= 10: the conversion part with a CONCRETE ghost result (bounded sample of atan2 values;
    // the symbolic version, part 1, needs ~9 minutes of float reasoning and runs in the thorough tier)
    const SAMPLES: [f64; 8] = [-3.141592653589793, -2.5, -1.0, -1e-4, -0.6, -0.0002446183, -3.0e-4, -1.5707963267948966];
    let ret_a = if part == 0 { -0.6 } else if part >= 10 { SAMPLES[(part - 10) as usize % 8] } else { s.f64() };
    let ret_h = if part == 0 { 370.0 } else if part >= 10 { 1234.5 } else { s.f64() };
    let part = if part >= 10 { 1 } else { part };
    let sg = |b: bool| if b { Sign::Negative } else { Sign::Positive };
    let sub_type = if st == 1 || st == 2 {
        AirborneVelocitySubType::GroundSpeedDecoding(GroundSpeedDecoding { ew_sign: sg(ew_dir), ew_vel: ew_raw, ns_sign: sg(ns_dir), ns_vel: ns_raw })
    } else if st == 3 || st == 4 {
        AirborneVelocitySubType::AirspeedDecoding(AirspeedDecoding { status_heading: ew_dir as u8, mag_heading: ew_raw, airspeed_type: ns_dir as u8, airspeed: ns_raw })
    } else if st == 0 {
        AirborneVelocitySubType::Reserved0(ew_raw as u32)
    } else {
        AirborneVelocitySubType::Reserved1(ew_raw as u32)
    };
    let v = AirborneVelocity {
        st,
        nac_v: 0,
        sub_type,
        vrate_src: VerticalRateSource::BarometricPressureAltitude,
        vrate_sign: sg(vr_sign),
        vrate_value: vr_raw,
        reverved: 0,
        gnss_sign: Sign::Positive,
        gnss_baro_diff: 0,
    };
    let spec = velocity_int_spec(st, ew_dir as u8, ew_raw, ns_dir as u8, ns_raw, vr_sign as u8, vr_raw);
    // envelope contract assumed of libm::atan2 for integer arguments of magnitude <= 4088
    if let (Some((e, n, _)), 1) = (spec, part) {
        vrequire!(ctx, ret_a >= -PI && ret_a <= PI);
        vrequire!(ctx, (ret_a == 0.0) == (e == 0 && n >= 0));
        vrequire!(ctx, !(e > 0) || ret_a >= 1e-4);
        vrequire!(ctx, !(e < 0) || ret_a <= -1e-4);
        vrequire!(ctx, !(e == 0 && n < 0) || ret_a == PI);
        vrequire!(ctx, ret_h >= 0.0 && ret_h <= 6000.0);
    }
    unsafe {
        ATAN2_CALLS = 0;
        HYPOT_CALLS = 0;
        ATAN2_RET = ret_a;
        HYPOT_RET = ret_h;
    }
    let got = v.calculate();
    vnote!(ctx, "st={} ew=({},{}) ns=({},{}) vr=({},{}): calculate() = {:?}, spec (east, north, vrate) = {:?}", st, ew_dir, ew_raw, ns_dir, ns_raw, vr_sign, vr_raw, got, spec);
    match (got, spec) {
        (None, None) => {}
        (Some(_), None) => {
            vcheck!(ctx, false, "[C07] no derived velocity for non-ground-speed subtypes or a zero velocity / vertical-rate field");
        }
        (None, Some(_)) => {
            vcheck!(ctx, false, "[C07] a ground-speed report with non-zero velocity and vertical-rate fields yields a derived velocity");
        }
        (Some((h, g, vr)), Some((e, n, v_spec))) => {
            vcheck!(ctx, vr as i32 == v_spec, "[C07] vertical rate == sign * (raw - 1) * 64 ft/min");
            #[cfg(kani)]
            {
                let (calls, args, hc, hargs) = unsafe { (ATAN2_CALLS, ATAN2_ARGS, HYPOT_CALLS, HYPOT_ARGS) };
                vcheck!(ctx, calls == 1 && args.0 == e as f64 && args.1 == n as f64, "[C07] track is atan2(east, north) with east/north = sign * k * (raw - 1) kt (k = 4 for supersonic)");
                vcheck!(ctx, hc == 1 && ((hargs.0 == e as f64 && hargs.1 == n as f64) || (hargs.0 == n as f64 && hargs.1 == e as f64)), "[C07] ground speed is the Euclidean norm of (east, north)");
                vcheck!(ctx, g == ret_h, "[C07] ground speed is returned unchanged");
                let deg = ret_a * (360.0 / (2.0 * PI));
                let wrapped = if deg < 0.0 { deg + 360.0 } else { deg };
                let d = h as f64 - wrapped;
                vcheck!(ctx, d <= 1e-4 && d >= -1e-4, "[C07] track == atan2 in degrees wrapped into [0, 360)");
                if part == 1 {
                    vcheck!(ctx, h >= 0.0 && h < 360.0, "[C07] track lies in [0, 360)");
                }
            }
            #[cfg(not(kani))]
            {
                let a = libm::atan2(e as f64, n as f64) * (360.0 / (2.0 * PI));
                let wrapped = if a < 0.0 { a + 360.0 } else { a };
                let d = h as f64 - wrapped;
                vcheck!(ctx, d <= 1e-4 && d >= -1e-4, "[C07] track is atan2(east, north) with east/north = sign * k * (raw - 1) kt (k = 4 for supersonic)");
                let gd = g - libm::hypot(e as f64, n as f64);
                vcheck!(ctx, gd <= 1e-9 && gd >= -1e-9, "[C07] ground speed is the Euclidean norm of (east, north)");
            }
            #[cfg(not(kani))]
            {
                vcheck!(ctx, h >= 0.0 && h < 360.0, "[C07] track lies in [0, 360)");
            }
        }
    }
    vcover!(!(st == 1 || st == 2) || spec.is_some(), "cover: a ground-speed report with information");
    vcover!(part == 1 || !(st == 1 || st == 2) || spec.is_none(), "cover: a ground-speed report without information");
}

